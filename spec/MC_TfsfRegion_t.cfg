SPECIFICATION Spec
CONSTANTS N = 8  K = 5  Vals <- ValsPM  Amps = { 1, 3 }  Delays = { 0, 1, 3 }  NSteps = 12  Variant = "ok"  Origin = "entry"
INVARIANT TypeOK
INVARIANT OutsideZero
INVARIANT InsideIncident
INVARIANT EOutsideZeroMid
CHECK_DEADLOCK FALSE
