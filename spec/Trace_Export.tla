------------------------- MODULE Trace_Export -------------------------
(* Validates what the REAL export code of /repo/src produced against ExportDefs.tla (model-checked in Export.tla and
   ExportProgress.tla).  The harness (checks/X03.py) only runs the code, reads the written files back byte by byte
   and encodes integers; every rule is evaluated here.

   kind = "vti"   one file written by fdtdx.conversion.vti.export_vti (fmt "vti") or export_vtr (fmt "vtr")
       s, off          spatial shape of the arrays, global cell offset passed (offset=, grid_slice=, or 0)
       ftype, byte_order, header_type, compressor, npieces, whole, piece     attributes read from the XML header
       res_q, spacing_q, origin_q, e0_q   (vti) resolution / Spacing / Origin / coordinate of grid edge 0, unit 2^-10
       coords_q, edges_q                  (vtr) coordinate arrays read from the file / edges of the grid, unit 2^-10
       exact           every float in the header was an exact multiple of 2^-10
       arrays[k]       name, name_attr, nc (0 = plain 3-D array), ncomp_attr, dtype, type_attr, off_attr,
                       hdr (the four UInt32 of the block header), consumed (compressed bytes zlib really used),
                       nbytes (decompressed length), x[c][i][j][k] (input values), flat (values decoded from the file
                       in file order), dev (max deviation of a decoded value from an integer, ppb)
       tail_ok         the last block is followed by exactly the closing tags
   kind = "stl"   one call of fdtdx.conversion.stl.export_stl
       s, m[i][j][k] (0/1), scale, tris (returned mesh: vertices[faces]), has_file, ftris / fnormals / fcount /
       fsize_ok (binary STL file read back), dev
   kind = "prog"  one loop driven through core.progress (_make_pbar, _wrap_body_with_progress) or a real FDTD entry point
       total, start, end, show, cb, made, interval, calls = [[position, total], ...] as received by progress_callback
   kind = "nice"  totals[], got[] = _auto_update_interval(totals[i])
   Verdict = first failing clause, or "ok".                                                                  *)
EXTENDS Integers, Sequences, FiniteSets, TLC, TLCExt, Json, IOUtils

D == INSTANCE ExportDefs

Cases == JsonDeserialize(IOEnv.TRACE_FILE)
VARIABLES ci
tvars == << ci >>

Seq3(x) == Len(x) = 3
\* ---------------------------------------------------------------- vti
XAt(a, c, p) == a.x[c + 1][p[1] + 1][p[2] + 1][p[3] + 1]
VtiWellFormed(c) ==
    /\ Seq3(c.s) /\ Seq3(c.off) /\ \A a \in 1..3 : c.s[a] >= 1 /\ c.off[a] >= 0
    /\ c.fmt \in {"vti", "vtr"}
    /\ c.raised \/ /\ Len(c.whole) = 6 /\ Len(c.piece) = 6 /\ Len(c.arrays) >= 1
                   /\ \A k \in 1..Len(c.arrays) :
                        LET a == c.arrays[k] IN
                        /\ Len(a.hdr) = 4 /\ a.nc >= 0
                        /\ Len(a.x) = D!NComp(a.nc) /\ Len(a.x[1]) = c.s[1] /\ Len(a.x[1][1]) = c.s[2] /\ Len(a.x[1][1][1]) = c.s[3]
                   /\ IF c.fmt = "vti" THEN Seq3(c.spacing_q) /\ Seq3(c.origin_q) /\ Seq3(c.e0_q)
                      ELSE Seq3(c.coords_q) /\ Seq3(c.edges_q)
FormatOK(c) == /\ c.ftype = (IF c.fmt = "vti" THEN "ImageData" ELSE "RectilinearGrid")
               /\ c.byte_order = "LittleEndian" /\ c.header_type = "UInt32" /\ c.compressor = "vtkZLibDataCompressor"
ExtentOK(c) == c.whole = D!Extent(c.off, c.s) /\ c.piece = c.whole /\ c.npieces = 1
SpacingOK(c) == \A a \in 1..3 : c.spacing_q[a] = c.res_q
AnchorOK(c) == \A a \in 1..3 : D!Anchored(c.origin_q[a], c.whole[2 * a - 1], c.spacing_q[a], c.e0_q[a], c.off[a], c.res_q)
CoordsOK(c) == \A a \in 1..3 : c.coords_q[a] = SubSeq(c.edges_q[a], c.off[a] + 1, c.off[a] + c.s[a] + 1)
DeclOK(c) == \A k \in 1..Len(c.arrays) : LET a == c.arrays[k] IN
    a.name_attr = a.name /\ a.ncomp_attr = D!NComp(a.nc) /\ a.type_attr = D!VtkTypeOf(a.dtype)
BlockOK(c) == \A k \in 1..Len(c.arrays) : LET a == c.arrays[k]  n == D!NComp(a.nc) * D!NCells(c.s) * D!ItemSize(a.dtype) IN
    a.hdr[1] = 1 /\ a.hdr[2] = n /\ a.hdr[3] = n /\ a.hdr[4] = a.consumed /\ a.nbytes = n
OffsetsOK(c) == /\ c.arrays[1].off_attr = 0
                /\ \A k \in 1..(Len(c.arrays) - 1) : c.arrays[k + 1].off_attr = c.arrays[k].off_attr + 16 + c.arrays[k].hdr[4]
                /\ c.tail_ok
LengthOK(c) == \A k \in 1..Len(c.arrays) : Len(c.arrays[k].flat) = D!NComp(c.arrays[k].nc) * D!NCells(c.s)
XFastestOK(c) == \A k \in 1..Len(c.arrays) : LET a == c.arrays[k] IN
    \A cc \in 0..(D!NComp(a.nc) - 1), p \in D!Cells(c.s) : a.flat[D!VtkPos(a.nc, c.s, cc, p) + 1] = XAt(a, cc, p)
\* what a VTK reader rebuilds from the file equals the exported array
RoundTripOK(c) == \A k \in 1..Len(c.arrays) : LET a == c.arrays[k] IN
    \A m \in 0..(Len(a.flat) - 1) : a.flat[m + 1] = XAt(a, D!VtkComp(a.nc, m), D!VtkCell(c.s, D!VtkTuple(a.nc, m)))
VtiVerdict(c) ==
    IF ~VtiWellFormed(c) THEN "malformed: vti record shape"
    ELSE IF c.raised THEN "raised: the exporter raised an exception on a legal input"
    ELSE IF ~FormatOK(c) THEN "format: VTKFile type / byte order / header type / compressor attributes"
    ELSE IF ~c.exact THEN "exact: a header float is not the exact dyadic value that was passed in"
    ELSE IF ~ExtentOK(c) THEN "extent: WholeExtent / Piece Extent differ from offset .. offset + shape"
    ELSE IF c.fmt = "vti" /\ ~SpacingOK(c) THEN "spacing: Spacing differs from the resolution"
    ELSE IF c.fmt = "vtr" /\ ~CoordsOK(c) THEN "coords: coordinate arrays differ from the grid edges of the slice"
    ELSE IF ~DeclOK(c) THEN "decl: DataArray Name / NumberOfComponents / type attribute"
    ELSE IF ~BlockOK(c) THEN "block: compressed-block header (count, sizes) inconsistent with the data"
    ELSE IF ~OffsetsOK(c) THEN "offsets: appended-data offsets do not point at consecutive blocks"
    ELSE IF \E k \in 1..Len(c.arrays) : c.arrays[k].dev > 0 THEN "exact: decoded value is not the integer that was exported"
    ELSE IF ~LengthOK(c) THEN "length: number of values differs from components x cells"
    ELSE IF ~XFastestOK(c) THEN "xfastest: value of cell (i,j,k) component c is not at position c + nc*(i + nx*(j + ny*k))"
    ELSE IF ~RoundTripOK(c) THEN "roundtrip: a VTK reader does not get the exported array back"
    ELSE IF c.fmt = "vti" /\ ~AnchorOK(c) THEN "anchor: Origin + ExtentMin*Spacing is not the coordinate of the first exported cell (offset counted twice)"
    ELSE "ok"

\* ---------------------------------------------------------------- stl
FilledSet(c) == { p \in D!Cells(c.s) : c.m[p[1] + 1][p[2] + 1][p[3] + 1] = 1 }
StlWellFormed(c) ==
    /\ Seq3(c.s) /\ Seq3(c.scale) /\ \A a \in 1..3 : c.s[a] >= 1 /\ c.scale[a] >= 1
    /\ Len(c.m) = c.s[1] /\ Len(c.m[1]) = c.s[2] /\ Len(c.m[1][1]) = c.s[3]
    /\ \A i \in 1..Len(c.tris) : Len(c.tris[i]) = 3
    /\ c.has_file => (Len(c.fnormals) = Len(c.ftris) /\ \A i \in 1..Len(c.ftris) : Len(c.ftris[i]) = 3)
MeshVerdict(c, F, tris, tag) ==
    IF \E i \in 1..Len(tris) : ~D!OnLattice(tris[i], c.s, c.scale)
        THEN tag \o "lattice: a vertex is not a voxel-lattice point scaled by the voxel size"
    ELSE LET lt == TLCEval([ i \in 1..Len(tris) |-> D!Unscale(tris[i], c.scale) ]) IN
    IF ~D!AllHalfQuads(lt) THEN tag \o "halfquad: a triangle is not half of a voxel face"
    ELSE IF ~D!NoForeignFace(F, lt) THEN
        (IF D!InwardOnly(F, lt) THEN tag \o "normal: a triangle is wound so that its normal points into the solid"
         ELSE tag \o "exposed: a triangle lies on a voxel face that is not exposed (internal face or empty voxel)")
    ELSE IF Len(lt) # 2 * Cardinality(D!ExposedFaces(F)) THEN tag \o "count: number of triangles differs from 2 x exposed voxel faces"
    ELSE IF ~D!TwoPerFace(F, lt) THEN tag \o "twoperface: an exposed face is not covered by exactly two tiling triangles"
    ELSE IF ~D!Oriented(lt) THEN tag \o "oriented: a directed edge is not matched by its reverse"
    ELSE IF D!PinchFree(F) /\ ~D!Watertight(lt) THEN tag \o "watertight: an edge is not shared by exactly two triangles"
    ELSE "ok"
StlVerdict(c) ==
    IF ~StlWellFormed(c) THEN "malformed: stl record shape"
    ELSE IF c.raised THEN "raised: export_stl raised an exception on a boolean 3-D mask"
    ELSE IF c.dev > 0 THEN "exact: a vertex coordinate is not an integer"
    ELSE LET F == FilledSet(c)  v1 == MeshVerdict(c, F, c.tris, "mesh ") IN
    IF v1 # "ok" THEN v1
    ELSE IF ~c.has_file THEN "ok"
    ELSE IF c.fcount # Len(c.ftris) \/ ~c.fsize_ok THEN "file: STL triangle count / file length inconsistent"
    ELSE LET v2 == MeshVerdict(c, F, c.ftris, "file ") IN
    IF v2 # "ok" THEN v2
    ELSE IF \E i \in 1..Len(c.ftris) : c.fnormals[i] # D!Normal(D!Unscale(c.ftris[i], c.scale))
        THEN "file normal: stored facet normal is not the outward unit normal of the facet"
    ELSE "ok"
\* detailed model (drift only): the returned triangle list is exactly the implementation-shaped list of ExportDefs
StlModelOK(c) == LET F == FilledSet(c)  lt == D!ImplTris(F, c.s, "doc") IN
    c.tris = [ i \in 1..Len(lt) |-> D!ScaleTri(lt[i], c.scale) ]

\* ---------------------------------------------------------------- progress
ProgWellFormed(c) == /\ c.start >= 0 /\ c.end >= c.start /\ c.total = c.end - c.start
                     /\ \A k \in 1..Len(c.calls) : Len(c.calls[k]) = 2
ProgVerdict(c) ==
    IF ~ProgWellFormed(c) THEN "malformed: prog record"
    ELSE IF c.raised THEN "raised: the progress-instrumented loop raised"
    ELSE IF c.steps # c.total THEN "steps: the loop did not execute end - start steps"
    ELSE IF c.total = 0 \/ (~c.show /\ ~c.cb) THEN
        (IF c.made \/ Len(c.calls) # 0 THEN "none: a progress bar was made although there is nothing to report" ELSE "ok")
    ELSE IF ~c.made THEN "made: no progress reporter although one was requested"
    ELSE IF c.interval # D!NiceInterval(c.total) THEN "interval: update interval differs from the documented 1-2-5 rule"
    ELSE IF ~c.cb THEN "ok"
    ELSE LET ex == D!ExpectedCalls(c.start, c.end, c.interval) IN
    IF Len(c.calls) # Len(ex) THEN "count: number of progress reports differs from executed steps on the interval grid + closing report"
    ELSE IF \E k \in 1..Len(c.calls) : c.calls[k][2] # c.total \/ c.calls[k][1] < 0 \/ c.calls[k][1] > c.total
        THEN "range: a reported position lies outside 0..total (step_offset not applied) or the total is wrong"
    ELSE IF c.calls[Len(c.calls)] # << c.total, c.total >> THEN "final: the last report is not (total, total)"
    ELSE IF \E k \in 1..(Len(c.calls) - 1) : c.calls[k][1] >= c.calls[k + 1][1] THEN "monotone: reported positions do not increase"
    ELSE IF \E k \in 1..Len(ex) : c.calls[k][1] # ex[k] THEN "position: reported position is not absolute step - start"
    ELSE "ok"
NiceVerdict(c) ==
    IF Len(c.totals) # Len(c.got) THEN "malformed: nice record"
    ELSE IF \E i \in 1..Len(c.totals) : c.got[i] # D!NiceInterval(c.totals[i]) THEN "interval: _auto_update_interval differs from the documented 1-2-5 rule"
    ELSE "ok"

Verdict(c) ==
    IF c.kind = "vti" THEN VtiVerdict(c)
    ELSE IF c.kind = "stl" THEN (LET v == StlVerdict(c) IN IF v = "ok" /\ ~StlModelOK(c) THEN "model: triangle list order differs from the implementation-shaped model" ELSE v)
    ELSE IF c.kind = "prog" THEN ProgVerdict(c)
    ELSE IF c.kind = "nice" THEN NiceVerdict(c)
    ELSE "malformed: unknown kind"

TInit == ci = 1 /\ TLCSet(1, << >>)
TNext == /\ ci <= Len(Cases)
         /\ LET c == Cases[ci] IN TLCSet(1, Append(TLCGet(1), [ id |-> c.id, v |-> Verdict(c) ]))
         /\ ci' = ci + 1
TSpec == TInit /\ [][TNext]_tvars
Post == ndJsonSerialize(IOEnv.VERDICT_FILE, TLCGet(1))
=======================================================================
