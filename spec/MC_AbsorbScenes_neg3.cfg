SPECIFICATION Spec
CONSTANTS LossPerHit = 4  ChargeFree = TRUE  OpenFace = "none"  Transits = 1  StretchApplied = TRUE
INVARIANT QuietAbsorbed
CHECK_DEADLOCK FALSE
