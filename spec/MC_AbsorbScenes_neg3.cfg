SPECIFICATION Spec
CONSTANTS LossPerHit = 4  ChargeFree = TRUE  OpenFace = "none"  Transits = 1
INVARIANT QuietAbsorbed
CHECK_DEADLOCK FALSE
