------------------------- MODULE Trace_Reduce -------------------------
(* Evaluates the C16 identities (ReduceDefs.tla / Reduce.tla) on the outputs of the REAL detectors of /repo/src:
   the same integer fields are handed to the real `update` of detectors that differ only in the option named
   by the identity (reduce_volume, direction, keep_all_components, inverse, closed surface vs. six face planes).
   One record = one family of outputs for one input:
     fam = "mean"     kind field|phasor: sp[b][c][i][j][k], red[b][c]           red = volume-weighted mean of sp
     fam = "energy"   sp[b][1][i][j][k], red[b][1] (both x2)                    red = sum vol * sp
     fam = "flux"     spAllP, spAllM [b][3][cells]; spOneP, spOneM [b][1][cells]; redAllP, redAllM [b][3];
                      redOneP, redOneM [b][1]; prop                               area sums, "-" negates, one = all[prop]
     fam = "closed"   out[b], inw[b], faces[b][m][side 1=min,2=max] for axes[m]  closed = signed face sum
     fam = "inverse"  fwd, inv, s0 [b][c][cells]                                  fwd + inv = 2 * s0
   n = region shape, W = region cell widths, dev = max deviation from integers (ppb), tol.           *)
EXTENDS Integers, Sequences, FiniteSets, TLC, TLCExt, Json, IOUtils

R == INSTANCE ReduceDefs

Cases == JsonDeserialize(IOEnv.TRACE_FILE)
VARIABLES ci
tvars == << ci >>

Fun(c, A) == [ q \in R!Cells(c.n) |-> A[q[1] + 1][q[2] + 1][q[3] + 1] ]
Rect(c, A) == \A b \in 1..Len(A) : \A k \in 1..Len(A[b]) :
                 Len(A[b][k]) = c.n[1] /\ Len(A[b][k][1]) = c.n[2] /\ Len(A[b][k][1][1]) = c.n[3]

MeanOK(c) == \A b \in 1..Len(c.sp) : \A k \in 1..Len(c.sp[b]) : R!IsMean(c.red[b][k], c.W, c.n, Fun(c, c.sp[b][k]))
EnergyOK(c) == \A b \in 1..Len(c.sp) : R!IsVolSum(c.red[b][1], c.W, c.n, Fun(c, c.sp[b][1]))

AreaAllOK(c, red, sp) == \A b \in 1..Len(sp), a \in 0..2 : R!IsAreaSum(red[b][a + 1], c.W, c.n, a, Fun(c, sp[b][a + 1]))
AreaOneOK(c, red, sp) == \A b \in 1..Len(sp) : R!IsAreaSum(red[b][1], c.W, c.n, c.prop, Fun(c, sp[b][1]))
NegSp(c, P, M) == \A b \in 1..Len(P) : \A k \in 1..Len(P[b]), q \in R!Cells(c.n) : Fun(c, M[b][k])[q] = -Fun(c, P[b][k])[q]
NegRed(P, M) == \A b \in 1..Len(P) : \A k \in 1..Len(P[b]) : M[b][k] = -P[b][k]
OneIsCompSp(c, One, All) == \A b \in 1..Len(One) : One[b][1] = All[b][c.prop + 1]
OneIsCompRed(c, One, All) == \A b \in 1..Len(One) : One[b][1] = All[b][c.prop + 1]

ClosedOK(c) ==
    \A b \in 1..Len(c.out) :
        c.out[b] = R!SumSet(1..Len(c.axes), [ m \in 1..Len(c.axes) |-> c.faces[b][m][2] - c.faces[b][m][1] ])
InwardOK(c) == \A b \in 1..Len(c.out) : c.inw[b] = -c.out[b]

InverseOK(c) ==
    \A b \in 1..Len(c.fwd) : \A k \in 1..Len(c.fwd[b]), q \in R!Cells(c.n) :
        Fun(c, c.fwd[b][k])[q] + Fun(c, c.inv[b][k])[q] = 2 * Fun(c, c.s0[b][k])[q]

Verdict(c) ==
    IF c.dev > c.tol THEN "exact: detector output is not integer valued on integer inputs"
    ELSE IF c.fam = "mean" THEN
        (IF ~Rect(c, c.sp) THEN "malformed: spatial record shape"
         ELSE IF ~MeanOK(c) THEN "mean: reduced record is not the cell-volume weighted mean of the spatial record" ELSE "ok")
    ELSE IF c.fam = "energy" THEN
        (IF ~Rect(c, c.sp) THEN "malformed: spatial record shape"
         ELSE IF ~EnergyOK(c) THEN "energy: reduced energy is not the cell-volume weighted sum of the energy density" ELSE "ok")
    ELSE IF c.fam = "flux" THEN
        (IF ~(Rect(c, c.spAllP) /\ Rect(c, c.spAllM) /\ Rect(c, c.spOneP) /\ Rect(c, c.spOneM)) THEN "malformed: spatial record shape"
         ELSE IF ~(AreaAllOK(c, c.redAllP, c.spAllP) /\ AreaOneOK(c, c.redOneP, c.spOneP)
                   /\ AreaAllOK(c, c.redAllM, c.spAllM) /\ AreaOneOK(c, c.redOneM, c.spOneM))
              THEN "flux: reduced flux is not the face-area weighted sum of the spatial flux"
         ELSE IF ~(NegSp(c, c.spAllP, c.spAllM) /\ NegSp(c, c.spOneP, c.spOneM) /\ NegRed(c.redAllP, c.redAllM) /\ NegRed(c.redOneP, c.redOneM))
              THEN "direction: the minus direction does not negate the plus direction"
         ELSE IF ~(OneIsCompSp(c, c.spOneP, c.spAllP) /\ OneIsCompSp(c, c.spOneM, c.spAllM)
                   /\ OneIsCompRed(c, c.redOneP, c.redAllP) /\ OneIsCompRed(c, c.redOneM, c.redAllM))
              THEN "component: single-component output is not the propagation component of the all-component output"
         ELSE "ok")
    ELSE IF c.fam = "closed" THEN
        (IF ~ClosedOK(c) THEN "closed: closed-surface flux is not the signed sum of its face fluxes"
         ELSE IF ~InwardOK(c) THEN "closed: inward orientation does not negate outward" ELSE "ok")
    ELSE IF c.fam = "inverse" THEN
        (IF ~(Rect(c, c.fwd) /\ Rect(c, c.inv) /\ Rect(c, c.s0)) THEN "malformed: record shape"
         ELSE IF ~InverseOK(c) THEN "inverse: the inverse-time phasor detector does not subtract what the forward one adds" ELSE "ok")
    ELSE "malformed: unknown family"

TInit == ci = 1 /\ TLCSet(1, << >>)
TNext == /\ ci <= Len(Cases)
         /\ TLCSet(1, Append(TLCGet(1), [ id |-> Cases[ci].id, v |-> Verdict(Cases[ci]) ]))
         /\ ci' = ci + 1
TSpec == TInit /\ [][TNext]_tvars
Post == ndJsonSerialize(IOEnv.VERDICT_FILE, TLCGet(1))
=======================================================================
