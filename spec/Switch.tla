------------------------------ MODULE Switch ------------------------------
(* A switched component (source or detector) over one run, as a state machine: at every step the component is
   active iff SwitchDefs!IsOn; an active detector appends one record (slot = rank of the step among the active
   steps), an active source injects; an inactive one does nothing (C14).                                   *)
EXTENDS SwitchDefs

CONSTANTS MaxT, EndRule,
          Times,        \* candidate values (ticks) for st / et
          Durations,    \* candidate values (ticks) for oft
          HalfPeriods,  \* candidate values for sap / eap / ofp (half periods)
          Periods,      \* candidate period lengths (ticks, even)
          Intervals, FixedLists

VARIABLES p, T, t, rec, inj
vars == << p, T, t, rec, inj >>

Opt(S) == S \cup {None}
Init == /\ T \in 1..MaxT
        /\ p \in [ off : BOOLEAN, fixed : FixedLists, st : Opt(Times), et : Opt(Times), oft : Opt(Durations),
                   sap : Opt(HalfPeriods), eap : Opt(HalfPeriods), ofp : Opt(HalfPeriods),
                   period : Opt(Periods), interval : Intervals ]
        /\ (HasFixed(p) => /\ ~p.off /\ p.st = None /\ p.et = None /\ p.oft = None /\ p.sap = None
                           /\ p.eap = None /\ p.ofp = None /\ p.period = None /\ p.interval = 1
                           /\ \A i \in 1..Len(p.fixed) : p.fixed[i] < T)
        /\ (p.off => p.st = None /\ p.et = None /\ p.oft = None /\ p.sap = None /\ p.eap = None /\ p.ofp = None
                     /\ p.period = None /\ p.interval = 1)
        /\ (HasFixed(p) \/ p.off \/ ~Invalid(p))
        /\ t = 0 /\ rec = << >> /\ inj = {}

Step == /\ t < T
        /\ IF IsOn(p, t, EndRule)
           THEN rec' = Append(rec, t) /\ inj' = inj \cup {t}
           ELSE UNCHANGED << rec, inj >>
        /\ t' = t + 1 /\ UNCHANGED << p, T >>
Next == Step
Spec == Init /\ [][Next]_vars

\* ---- properties ----
\* one record per active step, in chronological order, nothing else
RecordsAreActiveSteps == /\ \A i \in 1..Len(rec) : IsOn(p, rec[i], EndRule) /\ rec[i] < t
                         /\ \A i \in 1..(Len(rec) - 1) : rec[i] < rec[i + 1]
                         /\ Len(rec) = Cardinality({ u \in OnTimes(p, T, EndRule) : u < t })
SlotIsRank == \A i \in 1..Len(rec) : SlotOf(p, T, rec[i], EndRule) = i - 1
InjectOnlyWhenOn == \A u \in inj : IsOn(p, u, EndRule)
\* sanity of the rule itself (these make the negative instance fail)
WindowContiguous ==       \* without interval/fixed list the active steps form one interval
    (~HasFixed(p) /\ ~p.off /\ p.interval = 1) =>
        \A a, b, c \in 0..(T - 1) : (a < b /\ b < c /\ IsOn(p, a, EndRule) /\ IsOn(p, c, EndRule)) => IsOn(p, b, EndRule)
EndStepInclusive ==       \* a step that falls exactly on the end time is still active
    (~HasFixed(p) /\ ~p.off /\ p.interval = 1 /\ Et3(p) # Inf /\ Et3(p) % DT = 0 /\ Et3(p) \div DT < T
        /\ St3(p) <= Et3(p) /\ Et3(p) >= 0) => IsOn(p, Et3(p) \div DT, EndRule)
AlwaysOffIsOff == p.off /\ ~HasFixed(p) => OnTimes(p, T, EndRule) = {}
DefaultIsAlwaysOn ==
    (~HasFixed(p) /\ ~p.off /\ p.st = None /\ p.et = None /\ p.oft = None /\ p.sap = None /\ p.eap = None
        /\ p.ofp = None /\ p.interval = 1) => OnTimes(p, T, EndRule) = 0..(T - 1)
=============================================================================
