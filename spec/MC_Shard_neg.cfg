SPECIFICATION Spec
CONSTANTS
  Sizes = {4, 8}
  Devs = {1, 2, 4}
  MaxT = 2
  Variant = "no_exchange"
INVARIANT TypeOK
INVARIANT ShardInv
INVARIANT SplitConcat
CHECK_DEADLOCK FALSE
