---------------------------- MODULE TfsfRegionDefs ----------------------------
(* X01 (spec growth) - total-field/scattered-field BOX source  fdtdx.TFSFPlaneSourceRegion
   (src/fdtdx/objects/sources/tfsf_region.py, injection kernels in tfsf.py, gating in fdtd/update.py).
   Pure definitions shared by TfsfRegion.tla (1-D exact state machine) and Trace_TfsfRegion.tla (real runs).

   Lattice conventions (Yee cell idx = <<i,j,k>>, 1-based TLA+ tuples hold 0-based grid indices):
     E_c(idx) sits half a cell further along c;  H_c(idx) half a cell further along the two axes other than c.
   The box is the index box  lo[a] <= idx[a] < hi[a]  on every CONFINED axis a (a transverse axis listed in
   periodic_axes is not confined: the total field wraps around).  A component of cell idx is a TOTAL-field
   unknown iff idx lies in the box, otherwise a SCATTERED-field unknown - for all six components alike (a
   component normal to a face couples only to the same index along that axis).
   The connecting condition is DERIVED here from the Yee update equations (Corrections below), not copied from
   the implementation: wherever an update equation of a total (scattered) unknown reads a scattered (total)
   neighbour, the incident field of that neighbour is added (subtracted).                                     *)
EXTENDS Integers, Sequences, FiniteSets

Axes == {0, 1, 2}
Dirs == {"+", "-"}
DirSgn(d) == IF d = "+" THEN 1 ELSE -1
Cyc(a)  == (a + 1) % 3
Cyc2(a) == (a + 2) % 3

\* ---------------------------------------------------------------- 1-D face table (what the code stores per face)
Faces == {"min", "max"}
FaceSign(face) == IF face = "min" THEN 1 ELSE -1
\* box [a, b) on the face-normal axis: node on which the E correction / the H correction is written
ENode(face, a, b) == IF face = "min" THEN a ELSE b
HNode(face, a, b) == IF face = "min" THEN a - 1 ELSE b - 1
Total1D(a, b) == a..(b - 1)
\* a confined face needs one cell of margin on both sides (validate_placement)
Placeable(a, b, n) == 1 <= a /\ a < b /\ b + 1 <= n

\* ---------------------------------------------------------------- incident plane wave, half-cell / half-step units
\* position u (half cells from the box lower corner, along the propagation axis), on-clock time tau (half steps):
\* the wave is  g(tau - delay(u))  at Courant number 1 of the 1-D model;   L2 = 2 * (box length in cells)
\*   origin "entry" : the wave front starts at the face through which the wave enters (causal for both directions)
\*   origin "lower" : the phase origin is the box lower corner for both directions (what the code does)
Delay2(u, d, origin, L2) == IF d = "+" THEN u ELSE (IF origin = "entry" THEN L2 - u ELSE 0 - u)
\* real runs report  off2 = round(2 * S * time_offset)  (S = Courant number): time_offset = -Delay2 / (2 S)
Off2(u, d, origin, L2) == 0 - Delay2(u, d, origin, L2)
\* causal start: at on-clock 0 every incident sample that a face uses lies at a non-positive profile time
Causal(off2) == off2 <= 0

\* polarisation: E along transverse axis q of propagation axis p (sign +1), H = k x E
HAxis(p, q) == CHOOSE r \in Axes : r # p /\ r # q
HSgn(p, q, d) == DirSgn(d) * (IF q = Cyc(p) THEN 1 ELSE -1)

\* ---------------------------------------------------------------- 3-D connecting condition from first principles
InBox(idx, lo, hi, conf) == \A a \in conf : lo[a + 1] <= idx[a + 1] /\ idx[a + 1] < hi[a + 1]
Shift(idx, a, s) == [idx EXCEPT ![a + 1] = @ + s]
\* E_a(idx) += C * ( (H_c(idx) - H_c(idx - e_b)) - (H_b(idx) - H_b(idx - e_c)) ),  (a, b, c) cyclic
\* H_a(idx) -= C * ( (E_c(idx + e_b) - E_c(idx)) - (E_b(idx + e_c) - E_b(idx)) )
\* -> coefficient of the neighbour's component in the update of component a, neighbour along axis m
Coef(a, m) == IF m = Cyc(a) THEN -1 ELSE 1        \* same for both fields: E reads idx - e_m, H reads idx + e_m
Other(a, m) == CHOOSE r \in Axes : r # a /\ r # m
CompAxis(conf) == { p \in Axes \X conf : p[1] # p[2] }      \* << component a, neighbour axis m >>, no derivative along a
\* one correction term: the update of component `comp` of field `fld` at cell idx receives  sgn * C * inc(src at nb)
\* (C = Courant number times inverse material constant; inc = incident H for fld = "E", incident E for fld = "H").
\*   total cell reads scattered neighbour:  the incident value is ADDED to the neighbour   -> sgn = +Coef
\*   scattered cell reads total neighbour:  the incident value is SUBTRACTED               -> sgn = -Coef
Terms(fld, dom, lo, hi, conf) ==
    { [fld |-> fld, comp |-> p[1], idx |-> idx, src |-> Other(p[1], p[2]),
       nb |-> Shift(idx, p[2], IF fld = "E" THEN 0 - 1 ELSE 1),
       sgn |-> (IF InBox(idx, lo, hi, conf) THEN 1 ELSE -1) * Coef(p[1], p[2])] :
      p \in CompAxis(conf), idx \in dom }
\* keep the terms that really cross the surface (cell and neighbour on different sides)
Crossing(t, lo, hi, conf) == InBox(t.idx, lo, hi, conf) # InBox(t.nb, lo, hi, conf)
=============================================================================
