SPECIFICATION Spec
CONSTANTS L = 2  IsoTest = "full"  Variant = "reverse_ties"  NObj = 4  Family = "tiesq"
INVARIANT TypeOK
INVARIANT PainterRule
INVARIANT PrefixRule
INVARIANT VolumeFirst
INVARIANT TiersWidest
INVARIANT ScalarMu
PROPERTY OnlyUpwards
CHECK_DEADLOCK FALSE
