--------------------------- MODULE Colocate ---------------------------
(* Detector recording of fdtdx (fdtd/update.py update_detector_states) as a state machine shaped like the code:

     Step        the fields change: E, H advance, Hprev keeps the H of before the step            (forward())
     Record      one iteration of `for d in to_update`: the next detector stores its record,
                 computed the way helper_fn does:
                   no interpolation         raw E, H restricted to the region
                   is_interior(d)           interpolate_fields on the region + one-cell halo BLOCK of the raw
                                            fields, (Hprev + H)/2 on the block, cell widths sliced to the region
                   otherwise                the shared full-domain interpolation of the PADDED fields
                                            (pad_fields_for_boundaries + pad_fields_with_symmetry_mirror), sliced

   Property C15 (invariants):
     RecordIsFormula   the stored record equals the definitional co-location formula of ColocateDefs on the padded
                       domain, restricted to the region (exact detectors); the raw components otherwise
     PathsAgree        for EVERY box the block computation (on the padded fields, so that it is defined for edge boxes
                       too) and the full-domain computation give the same values: the two code paths are
                       interchangeable, which is why a region touching the edge records what an interior one does
     BlockInDomain     an interior block never reads outside the domain
   TLC enumerates every box (s, e) of the lattice, exact on/off, halo configurations (wrap / zero / electric or magnetic
   symmetry plane per axis), uniform and stretched integer widths, generic and single-component integer fields.

   Variant selects deliberately wrong implementations (negative instances):
     "interior_e_le_N"     is_interior accepts e = N: the block reads one cell past the domain
     "widths_unsliced"     the block path takes the cell widths of the domain start instead of the region's
     "mirror_src_swapped"  the mirror halo takes padded index 1 for on-plane components and 2 for the others     *)
EXTENDS ColocateDefs, TLC, SequencesExt

CONSTANTS NX, NY, NZ,     \* lattice
          Variant,        \* "doc" or a negative instance
          HaloMode,       \* "few" | "all" | "neg" (two, for the negative instances): which per-axis (wrap, symmetry) configurations are enumerated
          NumFields,      \* number of Step-separated field states per run
          NumWidths,      \* 1 = uniform only, 2, 3 = plus stretched patterns
          DetMode,        \* "all": every box, exact on / off;  "unit": the single-cell exact boxes only (negative instances)
          Parts           \* the detector list is dealt round-robin to this many independent runs (parallelism only)

VARIABLES cfg, wp, fid, E, Hp, H,     \* configuration, width pattern, field state (Hp = H of before the step)
          EP, HP, full,                  \* padded E, padded Hprev + H (= 2 H_avg), the shared full-domain interpolation
          want,                          \* ghost: the definitional formula on the whole domain for the current fields
          part, di, det, rec             \* share of the detector list, loop index, the detector that recorded last, its record
vars == << cfg, wp, fid, E, Hp, H, EP, HP, full, want, part, di, det, rec >>

N == << NX, NY, NZ >>
Poison == 100003          \* what a read outside the allocated array yields

\* ---------------------------------------------------------------- configurations
\* cfg[a + 1] = << wrap, sym >>: some boundary of the axis wraps (periodic); config.symmetry[a] in {-1, 0, 1}
AxisCfgs == { << w, s >> : w \in BOOLEAN, s \in {-1, 0, 1} }
FewCfgs == { << << FALSE, 0 >>, << FALSE, 0 >>, << FALSE, 0 >> >>,        \* PEC / PMC / PML everywhere
             << << TRUE, 0 >>, << TRUE, 0 >>, << TRUE, 0 >> >>,           \* periodic everywhere
             << << TRUE, -1 >>, << TRUE, 0 >>, << FALSE, 0 >> >>,         \* electric plane x, far side periodic
             << << FALSE, -1 >>, << TRUE, -1 >>, << TRUE, 1 >> >>,        \* electric x, y; magnetic z
             << << TRUE, 1 >>, << FALSE, -1 >>, << FALSE, -1 >> >>,       \* magnetic x (far side periodic), electric y, z
             << << FALSE, 0 >>, << TRUE, 0 >>, << TRUE, -1 >> >> }
NegCfgs == { << << TRUE, 0 >>, << TRUE, 0 >>, << TRUE, 0 >> >>, << << TRUE, -1 >>, << FALSE, -1 >>, << TRUE, 0 >> >> }
Cfgs == IF HaloMode = "all" THEN AxisCfgs \X AxisCfgs \X AxisCfgs ELSE IF HaloMode = "neg" THEN NegCfgs ELSE FewCfgs
\* the halo kinds the property speaks about, derived from the configuration
LoKind(ac) == IF ac[2] = -1 THEN "mirror" ELSE IF ac[2] = 1 THEN "zero" ELSE IF ac[1] THEN "wrap" ELSE "zero"
HiKind(ac) == IF ac[1] THEN "wrap" ELSE "zero"
Lo == [ a \in 1..3 |-> LoKind(cfg[a]) ]
Hi == [ a \in 1..3 |-> HiKind(cfg[a]) ]

WidthAt(p, a, i) == IF p = 0 THEN 1 ELSE IF p = 1 THEN 1 + ((2 * i + a) % 3) ELSE 1 + ((i * i + 2 * a + 1) % 3)
W == [ a \in 1..3 |-> [ i \in 1..N[a] |-> WidthAt(wp, a - 1, i - 1) ] ]

\* ---------------------------------------------------------------- fields
Arr(F(_, _)) == [ c \in 0..2 |-> [ i \in 0..(NX - 1) |-> [ j \in 0..(NY - 1) |-> [ k \in 0..(NZ - 1) |-> F(c, << i, j, k >>) ] ] ] ]
At(A, c, p) == A[c][p[1]][p[2]][p[3]]
Label(p) == 1 + p[1] + NX * (p[2] + NY * p[3])
\* f = 0, 1: generic;  f = 2: a single E component and a single H component with injective labels;  f >= 3: generic again
EField(f) == Arr(LAMBDA c, p :
    IF f = 2 THEN (IF c = 1 THEN Label(p) ELSE 0)
    ELSE (((f + 2) * (7 * c + 3) + 13 * p[1] + 5 * p[2] * p[2] + 11 * p[1] * p[3] + 17 * p[3] + 3 * c * p[2]) % 23) - 11)
HField(f) == Arr(LAMBDA c, p :
    IF f = 2 \/ f = 3 THEN (IF c = 2 THEN (f - 1) * Label(p) ELSE 0)
    ELSE (((f + 1) * (5 * c + 1) + 7 * p[1] * p[1] + 19 * p[2] + 3 * p[2] * p[3] + 29 * p[3] + c * p[1]) % 19) - 9)

\* ---------------------------------------------------------------- detectors: every box, exact on / off
Boxes == { b \in Intervals(NX) \X Intervals(NY) \X Intervals(NZ) :
             DetMode = "unit" => \A a \in 1..3 : b[a][2] = b[a][1] + 1 }
Dets == SetToSeq({ [ s |-> << b[1][1], b[2][1], b[3][1] >>, e |-> << b[1][2], b[2][2], b[3][2] >>, exact |-> x ] : b \in Boxes, x \in (IF DetMode = "unit" THEN {TRUE} ELSE BOOLEAN) })
NoDet == [ s |-> << 0, 0, 0 >>, e |-> << 0, 0, 0 >>, exact |-> FALSE ]
Shape(d) == << d.e[1] - d.s[1], d.e[2] - d.s[2], d.e[3] - d.s[3] >>

\* ---------------------------------------------------------------- implementation-shaped padding
\* pad_fields (wrap / constant per axis), then the min halo of a wrapping symmetric axis is zeroed, then every electric
\* symmetry wall writes parity * padded[source_index] into padded index 0.  l \in 0..n+1 -> << domain index, sign >>
ImplPadSrc(n, ac, on, par, l) ==
    IF l >= 1 /\ l <= n THEN << l - 1, 1 >>
    ELSE IF l = n + 1 THEN (IF ac[1] THEN << 0, 1 >> ELSE << 0, 0 >>)
    ELSE IF ac[2] = -1 THEN
        LET src == IF Variant = "mirror_src_swapped" THEN (IF on THEN 1 ELSE 2) ELSE (IF on THEN 2 ELSE 1) IN << src - 1, par >>
    ELSE IF ac[2] # 0 THEN << 0, 0 >>
    ELSE IF ac[1] THEN << n - 1, 1 >> ELSE << 0, 0 >>
\* padded array of field A (type ft) at padded index l \in (0..N+1)^3; mirror_pairs_on_plane / field_component_parity tables
ImplPad(A, ft, c, l) ==
    LET comp == IF ft = "E" THEN Comp6[c + 1] ELSE Comp6[c + 4]
        S(a) == ImplPadSrc(N[a + 1], cfg[a + 1], U!OnPlane("field", comp, a, cfg[a + 1][2], FALSE),
                           U!Parity(ft, c, a, -1), l[a + 1])
        sg == S(0)[2] * S(1)[2] * S(2)[2]
    IN  IF sg = 0 THEN 0 ELSE sg * At(A, c, << S(0)[1], S(1)[1], S(2)[1] >>)

\* ---------------------------------------------------------------- implementation-shaped interpolate_fields
\* P(c, l): sample of component c of the haloed block at local padded index l (region index r sits at l = r + 1);
\* cw(a, r), pw(a, r): widths of the cell at / behind region index r.  Slices of the code: [1:-1] = r + 1, [:-2] = r, [2:] = r + 2.
Bea(cur, prev, cwv, pwv) == cur * pwv + prev * cwv          \* numerator of _backward_edge_average, denominator cwv + pwv
Interp(P(_, _), cw(_, _), pw(_, _), m, r) ==
    LET i == r[1]  j == r[2]  k == r[3]
        cx == cw(0, i)  px == pw(0, i)  cy == cw(1, j)  py == pw(1, j)
        XAvg(c, jj, kk) == Bea(P(c, << i + 1, jj, kk >>), P(c, << i, jj, kk >>), cx, px)
        YAvg(c, ii, kk) == Bea(P(c, << ii, j + 1, kk >>), P(c, << ii, j, kk >>), cy, py)
    IN  CASE m = 1 -> << XAvg(0, j + 1, k + 1) + XAvg(0, j + 1, k + 2), (cx + px) * 2 >>
          [] m = 2 -> << YAvg(1, i + 1, k + 1) + YAvg(1, i + 1, k + 2), (cy + py) * 2 >>
          [] m = 3 -> << P(2, << i + 1, j + 1, k + 1 >>), 1 >>
          [] m = 4 -> << YAvg(0, i + 1, k + 1), cy + py >>
          [] m = 5 -> << XAvg(1, j + 1, k + 1), cx + px >>
          [] m = 6 -> << Bea(XAvg(2, j + 1, k + 1), XAvg(2, j, k + 1), cy, py) + Bea(XAvg(2, j + 1, k + 2), XAvg(2, j, k + 2), cy, py),
                         (cx + px) * (cy + py) * 2 >>
\* E components read E; H components read H_avg = (Hprev + H) / 2: numerator Hprev + H, denominator doubled
Halve(m, v) == IF m <= 3 THEN v ELSE << v[1], 2 * v[2] >>

InDomain(g) == \A a \in 1..3 : g[a] >= 0 /\ g[a] < N[a]
Glob(d, l) == << d.s[1] - 1 + l[1], d.s[2] - 1 + l[2], d.s[3] - 1 + l[3] >>
RawRead(A, c, g) == IF InDomain(g) THEN At(A, c, g) ELSE Poison
\* widths handed to the block: sliced to the region (region_slice) unless the variant forgets it
BlockCW(d, a, r) == IF Variant = "widths_unsliced" THEN CW(W, a, r) ELSE CW(W, a, d.s[a + 1] + r)
BlockPW(d, a, r) == IF Variant = "widths_unsliced" THEN PW(W, a, r) ELSE PW(W, a, d.s[a + 1] + r)

\* interior path: block of the RAW arrays
BlockRaw(d, m, r) ==
    Halve(m, Interp(LAMBDA c, l : IF m <= 3 THEN RawRead(E, c, Glob(d, l)) ELSE RawRead(Hp, c, Glob(d, l)) + RawRead(H, c, Glob(d, l)),
                    LAMBDA a, x : BlockCW(d, a, x), LAMBDA a, x : BlockPW(d, a, x), m, r))
\* the same block computation on the PADDED arrays (padded index = domain index + 1): defined for every box
BlockPadded(d, m, r) ==
    Halve(m, Interp(LAMBDA c, l : At(IF m <= 3 THEN EP ELSE HP, c, << d.s[1] + l[1], d.s[2] + l[2], d.s[3] + l[3] >>),
                    LAMBDA a, x : BlockCW(d, a, x), LAMBDA a, x : BlockPW(d, a, x), m, r))

\* padded arrays (computed once per step, like the code)
PadArr(A, ft) == [ c \in 0..2 |-> [ l1 \in 0..(NX + 1) |-> [ l2 \in 0..(NY + 1) |-> [ l3 \in 0..(NZ + 1) |->
                    ImplPad(A, ft, c, << l1, l2, l3 >>) ] ] ] ]
SumArr(A, B) == Arr(LAMBDA c, p : At(A, c, p) + At(B, c, p))
\* fallback path: interpolate_fields on the whole padded domain (no region_slice), shared by all edge detectors
FullArr(EPa, HPa) == [ m \in 1..6 |-> [ i \in 0..(NX - 1) |-> [ j \in 0..(NY - 1) |-> [ k \in 0..(NZ - 1) |->
    Halve(m, Interp(LAMBDA c, l : At(IF m <= 3 THEN EPa ELSE HPa, c, l), LAMBDA a, x : CW(W, a, x), LAMBDA a, x : PW(W, a, x), m, << i, j, k >>)) ] ] ] ]
\* ghost: the definitional formula (ColocateDefs) on the whole domain
WantArr(Ea, Hpa, Ha) == [ m \in 1..6 |-> [ i \in 0..(NX - 1) |-> [ j \in 0..(NY - 1) |-> [ k \in 0..(NZ - 1) |->
    ExactVal(LAMBDA c, p : At(Ea, c, p), LAMBDA c, p : At(Hpa, c, p), LAMBDA c, p : At(Ha, c, p), N, W, Lo, Hi, m, << i, j, k >>) ] ] ] ]

ImplIsInterior(d) ==
    \A a \in 1..3 : d.s[a] >= 1 /\ d.e[a] <= (IF Variant = "interior_e_le_N" THEN N[a] ELSE N[a] - 1)

\* helper_fn
ImplRecord(d) ==
    [ m \in 1..6 |-> [ r \in Cells(Shape(d)) |->
        LET q == << d.s[1] + r[1], d.s[2] + r[2], d.s[3] + r[3] >> IN
        IF ~d.exact THEN (IF m <= 3 THEN << At(E, m - 1, q), 1 >> ELSE << At(H, m - 4, q), 1 >>)
        ELSE IF ImplIsInterior(d) THEN BlockRaw(d, m, r)
        ELSE At(full, m, q) ] ]

\* ---------------------------------------------------------------- state machine
\* nothing is loaded yet: the first Step produces field state 0 (kept out of Init so that TLC works on the configurations in parallel)
Init == /\ cfg \in Cfgs
        /\ wp \in 0..(NumWidths - 1)
        /\ part \in 1..Parts
        /\ fid = -1
        /\ E = << >> /\ Hp = << >> /\ H = HField(0)
        /\ EP = << >> /\ HP = << >> /\ full = << >> /\ want = << >>
        /\ di = Len(Dets) /\ det = NoDet /\ rec = << >>

\* `for d in to_update`: this run's detectors are part, part + Parts, part + 2 Parts, ...
Record == /\ fid >= 0
          /\ di + Parts <= Len(Dets)
          /\ di' = di + Parts
          /\ det' = Dets[di + Parts]
          /\ rec' = ImplRecord(Dets[di + Parts])
          /\ UNCHANGED << cfg, wp, part, fid, E, Hp, H, EP, HP, full, want >>

Step == /\ di + Parts > Len(Dets)
        /\ fid + 1 < NumFields
        /\ fid' = fid + 1
        /\ E' = EField(fid + 1) /\ Hp' = H /\ H' = HField(fid + 2)
        /\ EP' = PadArr(E', "E") /\ HP' = PadArr(SumArr(Hp', H'), "H")
        /\ full' = FullArr(EP', HP')
        /\ UNCHANGED << cfg, wp, part >>
        /\ want' = WantArr(E', Hp', H')
        /\ di' = part - Parts /\ det' = NoDet /\ rec' = << >>

Next == Record \/ Step
Spec == Init /\ [][Next]_vars

\* ---------------------------------------------------------------- properties
Recorded == fid >= 0 /\ di >= 1 /\ det # NoDet
QOf(r) == << det.s[1] + r[1], det.s[2] + r[2], det.s[3] + r[3] >>
FE(c, p) == At(E, c, p)
FH(c, p) == At(H, c, p)

TypeOK == Recorded => DOMAIN rec = 1..6 /\ \A m \in 1..6 : DOMAIN rec[m] = Cells(Shape(det))

RecordIsFormula == Recorded =>
    \A m \in 1..6, r \in Cells(Shape(det)) :
        RatEq(rec[m][r], IF det.exact THEN At(want, m, QOf(r)) ELSE RawVal(FE, FH, m, QOf(r)))

PathsAgree == (Recorded /\ det.exact) =>
    \A m \in 1..6, r \in Cells(Shape(det)) : RatEq(BlockPadded(det, m, r), At(full, m, QOf(r)))

\* every read of an interior block stays inside the domain (so the raw block equals the padded block)
BlockInDomain == (Recorded /\ det.exact /\ Interior(N, det.s, det.e)) =>
    \A l \in (0..(Shape(det)[1] + 1)) \X (0..(Shape(det)[2] + 1)) \X (0..(Shape(det)[3] + 1)) : InDomain(Glob(det, l))

\* Hprev really is the H of before the step
HprevIsOldH == [][fid' # fid => Hp' = H]_vars

\* lemma (independent of the run): the stencils reach one cell at most, backward along x, y and forward along z,
\* so a detector reads the domain indices s-1 .. e and `Interior` is exactly "no halo needed"
ASSUME ReachLemma ==
    \A m \in 1..6, a \in Axes :
        LET st == Stencil(FT6[m], CA6[m], a, << <<1, 2>>, <<1, 2>>, <<1, 2>> >>, 1) IN
        /\ \A t \in 1..Len(st.taps) : st.taps[t][1] \in (IF a = 2 THEN {0, 1} ELSE {-1, 0}) /\ st.taps[t][2] > 0
        /\ st.den = Sum2([ t \in 1..Len(st.taps) |-> st.taps[t][2] ])
=======================================================================
