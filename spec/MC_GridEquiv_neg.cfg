SPECIFICATION Spec
CONSTANTS
  MaxN = 3
  MaxD = 2
  MaxT = 1
  Variant = "ref_no_courant"
INVARIANT TypeOK
INVARIANT AllEqual
INVARIANT ScaleIsOne
CHECK_DEADLOCK FALSE
