------------------------- MODULE SymTransformDefs -------------------------
(* Pure definitions for the design symmetry transforms of fdtdx
   (objects/device/parameters/symmetries.py), shared by SymTransform.tla and Trace_SymTransform.tla.

   Arrays are rank-3 (ParamArrays).  Every transform "kind" has a geometric map Sigma on positions
   (a reflection, a 180-degree rotation or a transposition); the transform is  out = (in + in o Sigma) / 2.
   Kinds (option values are part of the kind):
     2D (exactly one singleton "vertical" axis, the two others form the image; rows = first image axis):
       "h2d"  mirror rows            "v2d"  mirror columns          "p2d"  rotate by 180 degrees
       "d2d_main" transpose          "d2d_anti" transpose about the anti-diagonal     (square images)
     3D:
       "h3d_x" "h3d_y" mirror axis 1 / 2      "v3d" mirror axis 3      "p3d" mirror all three axes
       "d3d_xy_main" "d3d_xz_main" "d3d_yz_main"   swap the two named axes        (equal sizes)
       "d3d_xy_anti" "d3d_xz_anti" "d3d_yz_anti"   swap them and mirror both                         *)
EXTENDS ParamArrays, Functions

Kinds2D == { "h2d", "v2d", "p2d", "d2d_main", "d2d_anti" }
Kinds3D == { "h3d_x", "h3d_y", "v3d", "p3d",
             "d3d_xy_main", "d3d_xz_main", "d3d_yz_main", "d3d_xy_anti", "d3d_xz_anti", "d3d_yz_anti" }

\* ---------- geometry ----------
FlipAx(shape, p, K)  == [ k \in 1..Len(shape) |-> IF k \in K THEN shape[k] + 1 - p[k] ELSE p[k] ]
SwapAx(p, i, j)      == [ k \in 1..Len(p) |-> IF k = i THEN p[j] ELSE IF k = j THEN p[i] ELSE p[k] ]

\* 2D: the vertical axis is the first singleton axis (v.shape.index(1)); image axes = the other two, in order
VertAxis(shape)  == IF shape[1] = 1 THEN 1 ELSE IF shape[2] = 1 THEN 2 ELSE 3
ImgAxes(shape)   == IF VertAxis(shape) = 1 THEN << 2, 3 >> ELSE IF VertAxis(shape) = 2 THEN << 1, 3 >> ELSE << 1, 2 >>
Is2DShape(shape) == Len(shape) = 3 /\ IsShape(shape) /\ Cardinality({ k \in 1..3 : shape[k] = 1 }) = 1
Is3DShape(shape) == Len(shape) = 3 /\ IsShape(shape)

DiagKinds3D == { "d3d_xy_main", "d3d_xz_main", "d3d_yz_main", "d3d_xy_anti", "d3d_xz_anti", "d3d_yz_anti" }
DiagAxes(kind) == IF kind \in {"d3d_xy_main", "d3d_xy_anti"} THEN << 1, 2 >>
                  ELSE IF kind \in {"d3d_xz_main", "d3d_xz_anti"} THEN << 1, 3 >> ELSE << 2, 3 >>

\* shapes a kind is defined on (documented preconditions: 2D needs exactly one singleton axis, diagonals need
\* equal sizes on the two swapped axes)
Applicable(kind, shape) ==
    IF kind \in Kinds2D
    THEN /\ Is2DShape(shape)
         /\ kind \in {"d2d_main", "d2d_anti"} => shape[ImgAxes(shape)[1]] = shape[ImgAxes(shape)[2]]
    ELSE /\ Is3DShape(shape)
         /\ kind \in DiagKinds3D => shape[DiagAxes(kind)[1]] = shape[DiagAxes(kind)[2]]

\* the reflection / rotation / transposition belonging to a kind, as "swap axes sw (if any), then mirror axes fl"
NoSwap == << 0, 0 >>
KindOp(kind, shape) ==
    LET ax == IF kind \in Kinds2D THEN ImgAxes(shape) ELSE DiagAxes(kind) IN
    CASE kind = "h2d"      -> [ sw |-> NoSwap, fl |-> { ax[1] } ]
      [] kind = "v2d"      -> [ sw |-> NoSwap, fl |-> { ax[2] } ]
      [] kind = "p2d"      -> [ sw |-> NoSwap, fl |-> { ax[1], ax[2] } ]
      [] kind = "d2d_main" -> [ sw |-> ax,     fl |-> { } ]
      [] kind = "d2d_anti" -> [ sw |-> ax,     fl |-> { ax[1], ax[2] } ]
      [] kind = "h3d_x"    -> [ sw |-> NoSwap, fl |-> {1} ]
      [] kind = "h3d_y"    -> [ sw |-> NoSwap, fl |-> {2} ]
      [] kind = "v3d"      -> [ sw |-> NoSwap, fl |-> {3} ]
      [] kind = "p3d"      -> [ sw |-> NoSwap, fl |-> {1, 2, 3} ]
      [] kind \in {"d3d_xy_main", "d3d_xz_main", "d3d_yz_main"} -> [ sw |-> ax, fl |-> { } ]
      [] kind \in {"d3d_xy_anti", "d3d_xz_anti", "d3d_yz_anti"} -> [ sw |-> ax, fl |-> { ax[1], ax[2] } ]
\* a realistic wrong anti-diagonal: only ONE of the two axes is mirrored before transposing (a 90-degree
\* rotation, which is not an involution) - used by the negative instance
KindOpRot90(kind, shape) ==
    LET ax == IF kind \in Kinds2D THEN ImgAxes(shape) ELSE DiagAxes(kind) IN [ sw |-> ax, fl |-> { ax[1] } ]

ApplyOp(op, shape, p) == FlipAx(shape, IF op.sw = NoSwap THEN p ELSE SwapAx(p, op.sw[1], op.sw[2]), op.fl)
Sigma(kind, shape, p) == ApplyOp(KindOp(kind, shape), shape, p)

\* ---------- the transform (values are integers; the sum of two values must be even) ----------
AverageWith(arr, shape, op) == [ p \in Positions(shape) |-> (arr[p] + arr[ApplyOp(op, shape, p)]) \div 2 ]
Averaged(arr, shape, kind)      == AverageWith(arr, shape, KindOp(kind, shape))
AveragedRot90(arr, shape, kind) == AverageWith(arr, shape, KindOpRot90(kind, shape))
EvenSums(arr, shape, kind) ==
    LET op == KindOp(kind, shape) IN \A p \in Positions(shape) : (arr[p] + arr[ApplyOp(op, shape, p)]) % 2 = 0

\* ---------- the property's predicates, on arbitrary arrays ----------
IsSymmetric(arr, shape, kind) ==
    LET op == KindOp(kind, shape) IN \A p \in Positions(shape) : arr[ApplyOp(op, shape, p)] = arr[p]

Total(arr, shape) == FoldFunction(LAMBDA x, y : x + y, 0, arr)

\* Sigma is an involution that maps positions to positions (sanity of the geometry itself)
SigmaInvolution(kind, shape) ==
    \A p \in Positions(shape) : /\ Sigma(kind, shape, p) \in Positions(shape)
                                /\ Sigma(kind, shape, Sigma(kind, shape, p)) = p
===========================================================================
