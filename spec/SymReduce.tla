----------------------------- MODULE SymReduce -----------------------------
(* C33: electric-plane symmetry reduction is exact outside the light cone of the discarded half's far boundary.

   Product specification: the FULL lattice (2n cells along the symmetry axis ax, boundary kind kf on that axis,
   transverse materials) and the REDUCED lattice (upper half, PEC wall on its min face, the same max-side
   boundary) take the same half steps (AxisPermDefs!YeeE / YeeH).  Initial fields: any parity-consistent reduced
   field, the full field is its mirror extension.
   Invariant SymInv: every full-domain entry whose distance from the min boundary exceeds the number of steps taken
   equals sign * reduced[mirror source]  (SymReduceDefs!Unfold).
   Negative instances: mirror index off by one for on-plane components; wrong H parity row.               *)
EXTENDS SymReduceDefs

CONSTANTS Shapes,   \* full-domain shapes; the extent along the symmetry axis must be even
          MaxT, Variant

VARIABLES NF, ax, kf, mat, ini, Ef, Hf, Er, Hr, pc, t
vars == << NF, ax, kf, mat, ini, Ef, Hf, Er, Hr, pc, t >>

NR == Halve(NF, ax)
\* transverse material: does not depend on the coordinate along ax
MatT(n, a) == [ i \in 1..Size(n) |-> 1 + ((Comp(i, n) + Coord(i, n, ((a + 1) % 3) + 1) + 2 * Coord(i, n, ((a + 2) % 3) + 1)) % 2) ]
\* boundary kinds: full domain kf on axis ax ("open" | "pec2"), "wrap" elsewhere; reduced: PEC wall on min, same max
BkF == [ a \in 1..3 |-> IF a = ax + 1 THEN kf ELSE "wrap" ]
BkR == [ a \in 1..3 |-> IF a = ax + 1 THEN (IF kf = "open" THEN "pec-" ELSE "pec2") ELSE "wrap" ]
NoLayer == NoLayers

DenseR(n, a, ft, s) ==
    [ i \in 1..Size(n) |-> IF Coord(i, n, a + 1) = 0 /\ OnPlane(ft, Comp(i, n), a) THEN 0
                           ELSE 1 + Comp(i, n) + 2 * Coord(i, n, 1) + 3 * Coord(i, n, 2) + 5 * Coord(i, n, 3) + s ]
BasisR(n, ft, k, f) == [ i \in 1..Size(n) |-> IF f = ft /\ i = k THEN 1 ELSE 0 ]
Inits(n, a) == { << "dense", 0 >> } \cup
               { fk \in {"E", "H"} \X (1..Size(n)) : ~(Coord(fk[2], n, a + 1) = 0 /\ OnPlane(fk[1], Comp(fk[2], n), a)) }
Field0(n, a, i, ft) == IF i[1] = "dense" THEN DenseR(n, a, ft, IF ft = "E" THEN 0 ELSE 1) ELSE BasisR(n, ft, i[2], i[1])

Init == /\ NF \in Shapes /\ ax \in 0..2 /\ NF[ax + 1] % 2 = 0 /\ NF[ax + 1] >= 4
        /\ kf \in {"open", "pec2"}
        /\ mat = MatT(NF, ax)
        /\ ini \in Inits(Halve(NF, ax), ax)
        /\ Er = Field0(Halve(NF, ax), ax, ini, "E") /\ Hr = Field0(Halve(NF, ax), ax, ini, "H")
        /\ Ef = Unfold(Er, NF, ax, "E", "ok") /\ Hf = Unfold(Hr, NF, ax, "H", "ok")
        /\ pc = "E" /\ t = 0

UpdE == /\ pc = "E" /\ t < MaxT
        /\ Ef' = YeeE(Ef, Hf, mat, NF, BkF, NoLayer, 0, "ok")
        /\ Er' = YeeE(Er, Hr, MatT(NR, ax), NR, BkR, NoLayer, 0, "ok")
        /\ pc' = "H"
        /\ UNCHANGED << NF, ax, kf, mat, ini, Hf, Hr, t >>
UpdH == /\ pc = "H"
        /\ Hf' = YeeH(Ef, Hf, NF, BkF, NoLayer, "ok")
        /\ Hr' = YeeH(Er, Hr, NR, BkR, NoLayer, "ok")
        /\ pc' = "E" /\ t' = t + 1
        /\ UNCHANGED << NF, ax, kf, mat, ini, Ef, Er >>
Next == UpdE \/ UpdH
Spec == Init /\ [][Next]_vars

TypeOK == pc \in {"E", "H"} /\ t \in 0..MaxT /\ Len(Ef) = Size(NF) /\ Len(Er) = Size(NR)
Steps == t + (IF pc = "H" THEN 1 ELSE 0)
\* C33 (boundary thickness 1: wall layer / first cell)
SymInv ==
    /\ \A I \in 1..Size(NF) : OutsideCone(I, NF, ax, 1, Steps) => Ef[I] = Unfold(Er, NF, ax, "E", Variant)[I]
    /\ \A I \in 1..Size(NF) : OutsideCone(I, NF, ax, 1, t)     => Hf[I] = Unfold(Hr, NF, ax, "H", Variant)[I]
\* the reduced fields stay parity consistent (the wall keeps tangential E at zero; normal H stays zero on the plane)
StaysConsistent == Consistent(Er, NR, ax, "E") /\ Consistent(Hr, NR, ax, "H")
\* anti-vacuity (must be violated): the light cone really matters - without the distance guard the relation fails
NoConeNeeded == \A I \in 1..Size(NF) : Coord(I, NF, ax + 1) >= 1 => Ef[I] = Unfold(Er, NF, ax, "E", "ok")[I]

ShapesQ == { <<6,2,1>>, <<2,6,1>>, <<1,2,6>> }
ShapesT == { <<8,2,2>>, <<2,8,2>>, <<2,2,8>>, <<6,3,1>>, <<3,1,6>> }
=============================================================================
