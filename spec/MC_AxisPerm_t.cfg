SPECIFICATION Spec
CONSTANTS
  Shapes <- ShapesT
  Kinds <- KindsAll
  MaxT = 2
  Variant = "ok"
  Srcs = "all"
INVARIANT TypeOK
INVARIANT PermInv
INVARIANT PermBijective
INVARIANT PermCubeId
INVARIANT TensorPermOK
CHECK_DEADLOCK FALSE
