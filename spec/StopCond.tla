----------------------------- MODULE StopCond -----------------------------
(* The run loop with a stopping condition as a state machine: Check (evaluate the condition on the current
   state), Step (one forward step).  C07: the run halts at the first step where the condition reports stop,
   never later than the condition's max_steps or the total step count, never before min_steps where promised. *)
EXTENDS StopCondDefs
CONSTANTS MaxT, MaxRule
VARIABLES kind, T, mn, mx, conv, t, pc, halted
vars == << kind, T, mn, mx, conv, t, pc, halted >>

BoolSeqs(n) == [ 1..n -> BOOLEAN ]
Init == /\ kind \in {"time", "energy", "detector"}
        /\ T \in 1..MaxT /\ mn \in 0..MaxT /\ mx \in 0..(MaxT + 1)      \* min_steps > max_steps allowed: max wins
        /\ conv \in BoolSeqs(T + 1)
        /\ (kind = "time" => mn = 0 /\ mx = T /\ conv = [ i \in 1..(T + 1) |-> FALSE ])
        /\ t = 0 /\ pc = "check" /\ halted = FALSE
Check == /\ pc = "check" /\ ~halted
         /\ IF t < T /\ Continue(kind, t, T, mn, mx, conv, MaxRule)
            THEN pc' = "step" /\ halted' = FALSE
            ELSE pc' = "check" /\ halted' = TRUE
         /\ UNCHANGED << kind, T, mn, mx, conv, t >>
Step == /\ pc = "step" /\ t' = t + 1 /\ pc' = "check"
        /\ UNCHANGED << kind, T, mn, mx, conv, halted >>
Next == Check \/ Step
Spec == Init /\ [][Next]_vars

HaltsAtFirstStop == halted => t = Halt(kind, T, mn, mx, conv, MaxRule)
NeverLate  == t <= Min2(mx, T) \/ kind = "time"
NeverLateTime == t <= T
NeverEarly == (halted /\ kind # "time") => t >= Min2(mn, Min2(mx, T))
NoStepAfterStop == [][halted => t' = t]_vars
=============================================================================
