--------------------------- MODULE Trace_Bounded ---------------------------
(* C36 (b), TRACE-MONITOR level: passive Lorentz / Drude media that placement accepts without error or warning must
   not grow in a closed (all-periodic) box.  One record = one medium (declared poles, rational parameters in units of
   dt), background permittivity eps and courant factor cf (rationals):
     accepted   place_objects + apply_params raised nothing and emitted no warning (Python warnings, loguru and
                logging output captured by the harness)
     ratio      max over the run of (field energy / initial field energy) * 1000, capped at 2*10^9
     steps      number of real `forward` steps taken (>= min_steps)
   Property:   accepted => ratio <= 10 * 1000.
   DispDefs!CoupledStable (the coupled field/polarisation bound, model-checked in Disp.tla) is evaluated as well:
   a disagreement between the bound and the observation is reported as "model: ..." (drift), never as a violation. *)
EXTENDS Integers, Sequences, FiniteSets, TLC, TLCExt, Json, IOUtils
D == INSTANCE DispDefs
Cases == JsonDeserialize(IOEnv.TRACE_FILE)
VARIABLE ci

Passive(p) == LET v == [ k \in 1..Len(p.v) |-> D!Rn(p.v[k]) ] IN
              CASE p.ptype = "lorentz" -> v[1][1] > 0 /\ v[2][1] >= 0 /\ v[3][1] >= 0
                [] p.ptype = "drude"   -> v[1][1] > 0 /\ v[2][1] >= 0
                [] OTHER -> FALSE
Coefs(c) == [ k \in 1..Len(c.poles) |-> D!Coef(D!Unified(c.poles[k]), "ok") ]
InsideBound(c) == D!CoupledStable(D!RSq(D!Rn(c.cf)), D!Rn(c.eps), Coefs(c))

Verdict(c) ==
    IF ~(c.kind = "bounded" /\ Len(c.poles) >= 0 /\ c.min_steps >= 10000 /\ c.limit = 10000 /\ c.cf[2] > 0 /\ c.eps[2] > 0
         /\ \A k \in 1..Len(c.poles) : Passive(c.poles[k]) /\ D!Precond(D!Unified(c.poles[k])))
        THEN "malformed: bounded record"
    ELSE IF c.accepted /\ c.ratio > c.limit
        THEN "bounded: passive medium accepted without error or warning grows beyond 10x its initial field energy"
    ELSE IF c.accepted /\ c.steps < c.min_steps THEN "malformed: run shorter than the property's horizon"
    ELSE IF c.accepted /\ ~InsideBound(c) THEN "model: bounded although outside the coupled stability bound"
    ELSE IF ~c.accepted /\ c.raised = "" /\ InsideBound(c) THEN "model: warned although inside the coupled stability bound"
    ELSE "ok"

TInit == ci = 1 /\ TLCSet(1, << >>)
TNext == /\ ci <= Len(Cases)
         /\ LET c == Cases[ci] IN TLCSet(1, Append(TLCGet(1), [ id |-> c.id, v |-> Verdict(c) ]))
         /\ ci' = ci + 1
TSpec == TInit /\ [][TNext]_ci
Post == ndJsonSerialize(IOEnv.VERDICT_FILE, TLCGet(1))
=============================================================================
