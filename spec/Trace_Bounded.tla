--------------------------- MODULE Trace_Bounded ---------------------------
(* C36 (b), TRACE-MONITOR level: passive Lorentz / Drude media that placement accepts without error or warning must
   not grow in a closed (all-periodic) box.  One record = one medium (declared poles, rational parameters in units of
   dt, per grid axis), background permittivity eps and courant factor cf (rationals); media with omega_0*dt >= 2 are
   enumerated too (placement must reject them, or they must stay bounded):
     accepted   place_objects + apply_params raised nothing and emitted no warning (Python warnings, loguru and
                logging output captured by the harness)
     ratio      max over the run of (field energy / initial field energy) * 1000, capped at 2*10^9
     steps      number of real `forward` steps taken (>= min_steps)
   Property:   accepted => ratio <= 10 * 1000.
   DispDefs!CoupledStable (the coupled field/polarisation bound, model-checked in Disp.tla) is evaluated as well:
   a disagreement between the bound and the observation is reported as "model: ..." (drift), never as a violation. *)
EXTENDS Integers, Sequences, FiniteSets, TLC, TLCExt, Json, IOUtils
D == INSTANCE DispDefs
Cases == JsonDeserialize(IOEnv.TRACE_FILE)
VARIABLE ci

\* a pole is [ptype, ax] with one parameter vector per grid axis (isotropic poles repeat it)
AxP(p, i) == [ ptype |-> p.ptype, v |-> p.ax[i] ]
Passive(p, i) == LET v == [ k \in 1..Len(p.ax[i]) |-> D!Rn(p.ax[i][k]) ] IN       \* non-negative damping and strength
              CASE p.ptype = "lorentz" -> Len(v) = 3 /\ v[1][1] >= 0 /\ v[2][1] >= 0 /\ v[3][1] >= 0
                [] p.ptype = "drude"   -> Len(v) = 2 /\ v[1][1] >= 0 /\ v[2][1] >= 0
                [] OTHER -> FALSE
\* placement's own acceptance rule (Disp.tla: AcceptsWithinLimit): omega_0*dt < 2 on every axis that couples
AllAccept(c) == \A k \in 1..Len(c.poles) : \A i \in 1..3 : D!Accepts(D!Unified(AxP(c.poles[k], i)), "or")
Coefs(c, i) == [ k \in 1..Len(c.poles) |-> D!Coef(D!Unified(AxP(c.poles[k], i)), "ok") ]
InsideBound(c) == \A i \in 1..3 : D!CoupledStable(D!RSq(D!Rn(c.cf)), D!Rn(c.eps), Coefs(c, i))

Verdict(c) ==
    IF ~(c.kind = "bounded" /\ c.min_steps >= 10000 /\ c.limit = 10000 /\ c.cf[2] > 0 /\ c.eps[2] > 0
         /\ \A k \in 1..Len(c.poles) : Len(c.poles[k].ax) = 3 /\ \A i \in 1..3 : Passive(c.poles[k], i))
        THEN "malformed: bounded record"
    ELSE IF c.accepted /\ c.ratio > c.limit
        THEN "bounded: passive medium accepted without error or warning grows beyond 10x its initial field energy"
    ELSE IF c.accepted /\ c.steps < c.min_steps THEN "malformed: run shorter than the property's horizon"
    ELSE IF c.accepted /\ ~AllAccept(c) THEN "model: accepted although omega_0*dt >= 2 on a coupling axis"
    ELSE IF c.accepted /\ ~InsideBound(c) THEN "model: bounded although outside the coupled stability bound"
    ELSE IF ~c.accepted /\ c.raised = "" /\ AllAccept(c) /\ InsideBound(c) THEN "model: warned although inside the coupled stability bound"
    ELSE IF ~c.accepted /\ c.raised # "" /\ AllAccept(c) THEN "model: rejected with an error although omega_0*dt < 2 on every coupling axis"
    ELSE "ok"

TInit == ci = 1 /\ TLCSet(1, << >>)
TNext == /\ ci <= Len(Cases)
         /\ LET c == Cases[ci] IN TLCSet(1, Append(TLCGet(1), [ id |-> c.id, v |-> Verdict(c) ]))
         /\ ci' = ci + 1
TSpec == TInit /\ [][TNext]_ci
Post == ndJsonSerialize(IOEnv.VERDICT_FILE, TLCGet(1))
=============================================================================
