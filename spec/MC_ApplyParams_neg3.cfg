SPECIFICATION Spec
CONSTANTS
  N = 4
  BaseEps <- One
  MatEps <- Eps14
  PVals <- P012
  MaxHist = 2
  Backup = "any"
  Scenes <- Disp
  DispWrite = "own"
  MatTable = "own"
INVARIANT TypeOK
INVARIANT DispOutsideUnchanged
INVARIANT DispCells
CHECK_DEADLOCK TRUE
