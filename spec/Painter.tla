---------------------------- MODULE Painter ----------------------------
(* C28 - static materials are painted by placement order.

   _init_arrays (fdtd/initialization.py) as a machine:
     SelectTiers == ObjectContainer.all_objects_* : component count of each material array = widest tier
                    any material of the scene needs; scalar permeability / no conductivity array when no
                    material needs one
     Paint       == one iteration of `for o in sorted(static_material_objects, key=placement_order)`:
                    the object's material is written into every cell of its cover (box or shape mask)
   The arrays are abstracted to "which material's values does the cell hold" (the stored value is a
   function of material and tier, see PainterDefs!Project / IsInverse used by the trace spec).

   Properties: the sequential assembly refines the declarative painter's rule (PainterRule, with the
   inductive form PrefixRule), tiers are the widest needed (TiersWidest), non-magnetic scene => scalar
   permeability (ScalarMu), a cell is only ever overwritten by an object that beats the previous one
   (OnlyUpwards).                                                                                    *)
EXTENDS PainterDefs

CONSTANTS L,        \* cells 1..L (covers are arbitrary non-empty subsets: boxes and masked shapes alike)
          Variant,  \* assembly order, see PainterDefs!Before; "arbitrary_ties" = any sorted permutation
          IsoTest,  \* isotropy test used by SelectTiers: "full" (the code) or "ignore_zz" (wrong), see PainterDefs!IsIsoV
          NObj,     \* number of static objects including the volume
          Family    \* "small": NObj = 4, all covers x all orders, and all material kinds
                    \* "ties" : any NObj, many objects sharing a placement order (one or two tie groups), every cover assignment
                    \* "tiesq": as "ties" with the three covers rotating along the list (3 assignments; quick tier)

Cells == 1..L
Covers == (SUBSET Cells) \ {{}}
ASSUME Family = "small" => NObj = 4

\* material catalogue (integers): plain isotropic, diagonal, full tensor, magnetic, conductive, magnetic+lossy
Mat(eps, mu, se, sm) == [ eps |-> eps, mu |-> mu, se |-> se, sm |-> sm ]
Catalogue == <<
    Mat(<<1,0,0,0,1,0,0,0,1>>, Ident9, Zero9, Zero9),                                   \* 1 vacuum
    Mat(<<2,0,0,0,2,0,0,0,2>>, Ident9, Zero9, Zero9),                                   \* 2 isotropic
    Mat(<<2,0,0,0,4,0,0,0,8>>, Ident9, Zero9, Zero9),                                   \* 3 diagonal
    Mat(<<2,1,0,1,1,0,0,0,4>>, Ident9, Zero9, Zero9),                                   \* 4 full tensor
    Mat(<<4,0,0,0,4,0,0,0,4>>, <<2,0,0,0,2,0,0,0,2>>, Zero9, Zero9),                    \* 5 magnetic isotropic
    Mat(<<2,0,0,0,2,0,0,0,2>>, Ident9, <<1,0,0,0,1,0,0,0,1>>, Zero9),                   \* 6 conductive isotropic
    Mat(<<8,0,0,0,8,0,0,0,8>>, <<1,0,0,0,2,0,0,0,4>>, <<1,0,0,0,2,0,0,0,3>>, <<1,1,0,1,2,0,0,0,1>>),   \* 7 diag mu, diag se, full sm
    Mat(<<2,0,0,0,2,0,0,0,4>>, Ident9, Zero9, Zero9),                                   \* 8 uniaxial along z (xx = yy # zz)
    Mat(<<2,0,0,0,2,0,0,0,2>>, <<2,0,0,0,1,0,0,0,2>>, <<0,0,0,0,0,0,0,0,2>>, <<3,0,0,0,1,0,0,0,1>>) >> \* 9 uniaxial mu (y), se (z only), sm (x)
NMat == Len(Catalogue)

VARIABLES objs,     \* scene, fixed at Init: sequence (list order) of [ord, cover, mat, extra]
          pc,       \* "tiers" | "paint" | "done"
          tiers,    \* chosen component counts
          k,        \* objects painted so far
          owner,    \* cell -> list index of the object whose material the cell holds (0 = nothing yet)
          Order     \* the assembly order sorted(...) computed once per scene (fixed at Init)
vars == << objs, pc, tiers, k, owner, Order >>

MatsOf(os) == LET used == UNION { {os[i].mat} \cup os[i].extra : i \in DOMAIN os } IN [ m \in used |-> Catalogue[m] ]
Obj(o, c, m, x) == [ ord |-> o, cover |-> c, mat |-> m, extra |-> x ]
\* all geometries and placement orders with fixed distinct materials ...
GeoScenes  == { << Obj(-1000, Cells, 1, {}), Obj(o[1], c[1], 2, {}), Obj(o[2], c[2], 3, {}), Obj(o[3], c[3], 5, {}) >> :
                  o \in [1..3 -> 0..2], c \in [1..3 -> Covers] }
\* ... and all material assignments (plus one unused dictionary entry) with a fixed overlapping geometry
VolMats == IF L >= 4 THEN 1..NMat ELSE {1, 5}      \* quick tier: volume material vacuum or magnetic only
KindScenes == { << Obj(-1000, Cells, m[1], {}), Obj(1, {1, 2}, m[2], {}), Obj(0, {2, 3}, m[3], {x}), Obj(1, {2}, m[4], {}) >> :
                  m \in { f \in [1..4 -> 1..NMat] : f[1] \in VolMats }, x \in {1, 4, 7, 8} }

\* NObj - 1 objects whose placement orders are 0 or 1 (all tied, or two tie groups interleaved in the list in every
\* way), covers from three mutually overlapping sets, all materials distinct from their list neighbours
TieCovers == { Cells, Cells \ {1}, Cells \ {L} }
TieScenes == { [ i \in 1..NObj |-> IF i = 1 THEN Obj(-1000, Cells, 1, {})
                                   ELSE Obj(o[i], c[i], 2 + (i % 6), {}) ] :
                 o \in [2..NObj -> {0, 1}], c \in [2..NObj -> TieCovers] }
TieCoverSeq == << Cells, Cells \ {1}, Cells \ {L} >>
TieScenesQ == { [ i \in 1..NObj |-> IF i = 1 THEN Obj(-1000, Cells, 1, {})
                                    ELSE Obj(o[i], TieCoverSeq[1 + ((i + r) % 3)], 2 + (i % 6), {}) ] :
                  o \in [2..NObj -> {0, 1}], r \in 0..2 }
Scenes == CASE Family = "ties" -> TieScenes [] Family = "tiesq" -> TieScenesQ [] OTHER -> GeoScenes \cup KindScenes

Init == /\ objs \in Scenes
        /\ pc = "tiers" /\ k = 0
        /\ tiers = [ eps |-> 0, mu |-> 0, se |-> 0, sm |-> 0 ]
        /\ owner = [ c \in Cells |-> 0 ]
        /\ Order \in IF Variant = "arbitrary_ties" THEN SortedAnyTies(objs) ELSE { PaintOrder(objs, Variant) }

SelectTiers ==
    /\ pc = "tiers"
    /\ tiers' = ExpTiersV(MatsOf(objs), IsoTest)
    /\ pc' = "paint"
    /\ UNCHANGED << objs, k, owner, Order >>

Paint ==
    /\ pc = "paint" /\ k < NObj
    /\ LET i == Order[k + 1] IN owner' = [ c \in Cells |-> IF c \in objs[i].cover THEN i ELSE owner[c] ]
    /\ k' = k + 1
    /\ pc' = IF k + 1 = NObj THEN "done" ELSE "paint"
    /\ UNCHANGED << objs, tiers, Order >>

Next == SelectTiers \/ Paint
Spec == Init /\ [][Next]_vars

\* ---------- properties ----------
TypeOK == pc \in {"tiers", "paint", "done"} /\ k \in 0..NObj /\ owner \in [Cells -> 0..NObj]
Painted == { Order[a] : a \in 1..k }
\* C28 main clause: every cell holds the material of the highest-placement-order object covering it
PainterRule == pc = "done" => \A c \in Cells : owner[c] = Top(objs, c) /\ Catalogue[objs[owner[c]].mat] = Catalogue[objs[Top(objs, c)].mat]
\* inductive form: after k steps the rule holds among the objects painted so far
PrefixRule  == \A c \in Cells : owner[c] = TopAmong(objs, Painted, c)
\* the volume is lowest: it is painted first and every cell is painted
VolumeFirst == (k >= 1 => Order[1] = 1) /\ (pc = "done" => \A c \in Cells : owner[c] # 0)
\* tiers: widest needed, and minimal
TiersWidest == pc # "tiers" =>
    LET ms == MatsOf(objs) IN
    /\ \A m \in DOMAIN ms : TierOf(ms[m].eps) <= tiers.eps
    /\ \E m \in DOMAIN ms : TierOf(ms[m].eps) = tiers.eps
    /\ tiers.mu # 0 => (\A m \in DOMAIN ms : TierOf(ms[m].mu) <= tiers.mu) /\ (\E m \in DOMAIN ms : TierOf(ms[m].mu) = tiers.mu)
    /\ tiers.se # 0 => (\A m \in DOMAIN ms : TierOf(ms[m].se) <= tiers.se) /\ (\E m \in DOMAIN ms : TierOf(ms[m].se) = tiers.se)
    /\ tiers.sm # 0 => (\A m \in DOMAIN ms : TierOf(ms[m].sm) <= tiers.sm) /\ (\E m \in DOMAIN ms : TierOf(ms[m].sm) = tiers.sm)
\* non-magnetic scene <=> scalar permeability; no conductive material <=> no conductivity array
ScalarMu == pc # "tiers" =>
    LET ms == MatsOf(objs) IN
    /\ (tiers.mu = 0) <=> (\A m \in DOMAIN ms : ms[m].mu = Ident9)
    /\ (tiers.se = 0) <=> (\A m \in DOMAIN ms : ms[m].se = Zero9)
    /\ (tiers.sm = 0) <=> (\A m \in DOMAIN ms : ms[m].sm = Zero9)
\* a cell changes hands only upwards
OnlyUpwards == [][ \A c \in Cells : owner'[c] # owner[c] => (owner[c] = 0 \/ Beats(objs, owner'[c], owner[c])) ]_vars
========================================================================
