SPECIFICATION Spec
CONSTANTS
  Kernels = { "binomial", "skew", "wide" }
  Grids <- GridsQ
  Vals <- Bits
  PadVals <- Two
  PadMode = "edge"
INVARIANT TypeOK
INVARIANT KernelFacts
INVARIANT Range
INVARIANT Constants
INVARIANT Affine
INVARIANT Mirror
CHECK_DEADLOCK TRUE
