-------------------------- MODULE Trace_StopCond --------------------------
(* C07 conformance: "call" records = the REAL condition object's __call__ on a hand-built state;
   "run" records = REAL run_fdtd(stopping_condition=...) with the convergence flag of every step measured on a
   plain run of the same scene.  TLC evaluates the documented predicates (StopCondDefs).               *)
EXTENDS StopCondDefs, Json, IOUtils, TLCExt
Cases == JsonDeserialize(IOEnv.TRACE_FILE)
VARIABLE ci
R == "max_steps"
Near(x, y, tol) == x - y <= tol /\ y - x <= tol

CallVerdict(c) ==
    LET cs == [ i \in 1..(c.t + 1) |-> c.conv ] IN
    \* the run loop is bounded by T, so a call is judged by whether the run stops: ~cont \/ t >= T
    IF (~c.cont \/ c.t >= c.T) = Stops(c.cond, c.t, c.T, c.mn, c.mx, cs, R) THEN "ok"
    ELSE IF c.cont /\ c.t >= c.mx THEN "call: condition continues at or after its max_steps"
    ELSE IF ~c.cont /\ c.t < c.mn THEN "call: condition stops before its min_steps"
    ELSE "call: continue/stop decision differs from the documented predicate"

RunVerdict(c) ==
    LET h == Halt(c.cond, c.T, c.mn, c.mx, c.conv, R) IN
    IF c.halt > Min2(c.mx, c.T) /\ c.cond # "time" THEN "run: ran past the condition's max_steps / the total step count"
    ELSE IF c.halt > c.T THEN "run: ran past the total step count"
    ELSE IF c.cond # "time" /\ c.halt < Min2(c.mn, Min2(c.mx, c.T)) THEN "run: stopped before min_steps"
    ELSE IF c.halt # h THEN "run: did not halt at the first step at which the condition reports stop"
    ELSE IF c.nfwd # c.halt THEN "run: number of executed forward steps differs from the returned step count"
    ELSE IF ~(Near(c.fpE, c.pfpE, c.tol) /\ Near(c.fpH, c.pfpH, c.tol) /\ Near(c.fpD, c.pfpD, c.tol))
         THEN "run: state at the halt differs from a plain run of the same number of steps"
    ELSE "ok"

Verdict(c) == IF c.kind = "call" THEN CallVerdict(c) ELSE RunVerdict(c)
TInit == ci = 1 /\ TLCSet(1, << >>)
TNext == /\ ci <= Len(Cases)
         /\ LET c == Cases[ci] IN TLCSet(1, Append(TLCGet(1), [ id |-> c.id, v |-> Verdict(c) ]))
         /\ ci' = ci + 1
TSpec == TInit /\ [][TNext]_ci
Post == ndJsonSerialize(IOEnv.VERDICT_FILE, TLCGet(1))
=============================================================================
