----------------------------- MODULE Trace_Ade -----------------------------
(* C36 (exact part) conformance: the REAL fdtdx.fdtd.forward.forward is stepped by hand on a small periodic box
   built through place_objects / apply_params.
     "rec"   probe cells inside a dispersive object: per step and probe the stored polarisation before / after the
             step (P^{n-1}, P^n, P^{n+1}) and the field (E^n, E^{n+1}) as scaled integers (value / run maximum * 10^12,
             three limbs, DispDefs).  The probe's coefficients are NOT read from the code: TLC derives them from the
             declared pole with the documented map Coef(Unified(pole)) and checks
                 P^{n+1} = c1 P^n + c2 P^{n-1} + c3 E^n + c4 E^{n+1}
             cross-multiplied by the lcm of the coefficient denominators; padded slots must hold P = 0 exactly.
     "zero"  one-step product: from every state of the dispersive run the same step is taken once with the
             dispersive arrays (allocated because a dispersive object sits elsewhere) and once without them; cells
             whose pole coefficients are all zero must end with the same E and H (diff in units of 1e-15 of the field
             maximum) and keep P = 0.                                                                            *)
EXTENDS Integers, Sequences, FiniteSets, TLC, TLCExt, Json, IOUtils
D == INSTANCE DispDefs
Cases == JsonDeserialize(IOEnv.TRACE_FILE)
VARIABLE ci

AxPole(p, i) == [ ptype |-> p.ptype, v |-> p.ax[i] ]
L4(c) == D!LCM(D!LCM(c.c1[2], c.c2[2]), D!LCM(c.c3[2], c.c4[2]))
Mul(r, m) == r[1] * (m \div r[2])                  \* integer r * m for m a multiple of the denominator

\* one observation ob = [p1, p0, pm, e0, e1] (limb triples) against coefficients c
RecOK(ob, c, tol) ==
    LET m  == L4(c)
        k1 == Mul(c.c1, m)  k2 == Mul(c.c2, m)  k3 == Mul(c.c3, m)  k4 == Mul(c.c4, m)
        R(i) == m * ob.p1[i] - k1 * ob.p0[i] - k2 * ob.pm[i] - k3 * ob.e0[i] - k4 * ob.e1[i]
    IN  D!AbsLe3(R(1), R(2), R(3), tol * (m + D!Abs(k1) + D!Abs(k2) + D!Abs(k3) + D!Abs(k4)))

RecWellFormed(c) ==
    /\ c.tol >= 1 /\ c.tol <= 50 /\ Len(c.events) >= 2 /\ Len(c.probes) >= 1
    /\ \A q \in 1..Len(c.probes) : c.probes[q].comp \in 1..3 /\ c.probes[q].slot \in 1..c.nslots
    /\ \A e \in 1..Len(c.events) : Len(c.events[e]) = Len(c.probes)
    /\ \A e \in 1..Len(c.events) : \A q \in 1..Len(c.probes) :
          LET ob == c.events[e][q] IN D!IsL3(ob.p1) /\ D!IsL3(ob.p0) /\ D!IsL3(ob.pm) /\ D!IsL3(ob.e0) /\ D!IsL3(ob.e1)
RecVerdict(c) ==
    IF ~RecWellFormed(c) THEN "malformed: rec record"
    ELSE IF ~c.finite THEN "recurrence: non-finite field or polarisation"
    ELSE IF ~c.active THEN "malformed: rec run never polarises its probes"
    ELSE IF \E e \in 1..Len(c.events) : \E q \in 1..Len(c.probes) :
                LET pr == c.probes[q] IN
                pr.slot <= Len(c.poles) /\ ~RecOK(c.events[e][q], D!Coef(D!Unified(AxPole(c.poles[pr.slot], pr.comp)), "ok"), c.tol)
         THEN "recurrence: stored polarisation does not follow P' = c1 P + c2 Pprev + c3 E (+ c4 E')"
    ELSE IF \E e \in 1..Len(c.events) : \E q \in 1..Len(c.probes) :
                c.probes[q].slot > Len(c.poles) /\ ~(D!ZeroL3(c.events[e][q].p1) /\ c.events[e][q].pz)
         THEN "recurrence: a padded pole slot carries polarisation"
    ELSE IF \E e \in 2..Len(c.events) : \E q \in 1..Len(c.probes) :          \* the previous-step slot is last step's current one
                LET r == D!SubL3(c.events[e][q].pm, c.events[e - 1][q].p0) IN ~D!ZeroL3(r)
         THEN "recurrence: P_prev is not the previous step's P_curr"
    ELSE "ok"

ZeroVerdict(c) ==
    IF ~(c.tol >= 0 /\ c.tol <= 100 /\ Len(c.events) >= 1 /\ c.nzero > 0 /\ c.nzero_h > 0 /\ c.ndisp > 0 /\ c.active) THEN "malformed: zero record"
    ELSE IF ~c.finite THEN "zeropoles: non-finite field"
    ELSE IF \E e \in 1..Len(c.events) : c.events[e].diff > c.tol
         THEN "zeropoles: a cell with all-zero pole coefficients does not evolve like the non-dispersive cell"
    ELSE IF \E e \in 1..Len(c.events) : ~c.events[e].pzero THEN "zeropoles: a cell with all-zero pole coefficients acquires polarisation"
    ELSE "ok"

Verdict(c) == CASE c.kind = "rec" -> RecVerdict(c) [] c.kind = "zero" -> ZeroVerdict(c) [] OTHER -> "malformed: kind"
TInit == ci = 1 /\ TLCSet(1, << >>)
TNext == /\ ci <= Len(Cases)
         /\ LET c == Cases[ci] IN TLCSet(1, Append(TLCGet(1), [ id |-> c.id, v |-> Verdict(c) ]))
         /\ ci' = ci + 1
TSpec == TInit /\ [][TNext]_ci
Post == ndJsonSerialize(IOEnv.VERDICT_FILE, TLCGet(1))
=============================================================================
