SPECIFICATION Spec
CONSTANTS Variant = "switched_half_step_dropped"  RampSteps = 4  GaussShare = 8
INVARIANT Directional
CHECK_DEADLOCK FALSE
