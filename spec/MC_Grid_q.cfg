SPECIFICATION Spec
CONSTANTS MaxN = 4  MaxNT = 2  Ws = {1, 2, 3}  WsBox = {1, 2}  Origins = {0}  Rotate = FALSE  Pad = 6  Variant = "code"
INVARIANT GridOK
INVARIANT SnapCorrect
INVARIANT CentreCorrect
INVARIANT AnchorCorrect
INVARIANT AnchorCoordCorrect
INVARIANT ExtentCorrect
INVARIANT AreaCorrect
INVARIANT VolumeCorrect
INVARIANT CflSafe
INVARIANT ReduceCorrect
CHECK_DEADLOCK FALSE
