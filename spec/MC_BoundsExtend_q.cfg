SPECIFICATION Spec
CONSTANTS N1 = 4  N2 = 4  N3 = 3  MaxTh = 2  Variant = "code"
INVARIANT TypeOK
INVARIANT ClampForm
INVARIANT InteriorUntouched
INVARIANT SourcesOutside
CHECK_DEADLOCK FALSE
