SPECIFICATION Spec
CONSTANTS
  N = 4
  BaseEps <- One
  MatEps <- Eps14
  PVals <- P012
  MaxHist = 2
  Backup = "any"
  Scenes <- Disp
  DispWrite = "every"
  MatTable = "own"
INVARIANT TypeOK
INVARIANT DeviceCells
INVARIANT Range
INVARIANT DiscreteExact
INVARIANT OutsideUnchanged
INVARIANT HistoryIndependent
INVARIANT DispCells
INVARIANT DispOutsideUnchanged
CHECK_DEADLOCK TRUE
