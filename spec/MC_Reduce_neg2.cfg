SPECIFICATION Spec
CONSTANTS MaxN = 2  Variant = "closed_all_plus"
INVARIANT MeanIdentity
INVARIANT MeanOfConstant
INVARIANT EnergyIdentity
INVARIANT FluxIdentities
INVARIANT ClosedIdentity
INVARIANT ThinAxisCancels
INVARIANT Extensive
CHECK_DEADLOCK FALSE
