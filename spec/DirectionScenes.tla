--------------------------- MODULE DirectionScenes ---------------------------
(* C13: Init enumerates the configuration space of the sweep
       axis x direction x polarisation class x profile x resolution x beam kind x switch        (576 scenes)
   and the phase machine  Ramp -> Steady  runs over ABSTRACT observations of a total-field/scattered-field plane:
   the plane carries an electric current sheet (from the incident H, radiates amplitude e to BOTH sides with equal
   sign) and a magnetic current sheet (from the incident E, radiates amplitude h with OPPOSITE signs to the two
   sides, orientation given by the declared direction).  Twice the amplitudes sent forward / backward are
        fwd2 = e + h,   back2 = e - h        (units 1e-4 of the incident amplitude, U = 10000),
   powers are their squares.  The two sheets are matched up to a residual d (numerical dispersion of the Yee grid
   at the declared resolution: uninterpreted table Mismatch, bounded from the real runs: ratio 3e-7 at 15 cells per
   wavelength = 11 units, 5e-8 at 20 = 5 units).  A Gaussian beam of radius >= 0.3 wavelengths additionally sends the
   share GaussShare (percent) of its forward power backward by diffraction.
   Invariant Directional is the statement.  Negative instances: Variant = "dir_ignored" (the magnetic sheet keeps the
   "+" orientation for direction "-"), "half_step_dropped" (the half-step Yee time offset between the two sheets is
   dropped: phase error pi/period, i.e. 1197 / 898 units at 15 / 20 cells per wavelength at Courant number 0.5716),
   "h_sign" (magnetic sheet injected with the wrong sign), "switched_half_step_dropped" (the half step is dropped only on
   the code path of sources with a non-default on/off switch).                                              *)
EXTENDS DirectionDefs, TLC
CONSTANTS Variant, RampSteps, GaussShare
VARIABLES cfg, phase, ramp, pf, pb
vars == << cfg, phase, ramp, pf, pb >>
U == 10000
Sgn(d) == IF d = "+" THEN 1 ELSE -1
HalfStepLost == Variant = "half_step_dropped" \/ (Variant = "switched_half_step_dropped" /\ cfg.switch # "on")
Mismatch(res) == IF HalfStepLost THEN (IF res = 15 THEN 1197 ELSE 898)
                 ELSE (IF res = 15 THEN 12 ELSE 6)
\* residuals TLC enumerates: every value up to the table entry (a dropped half step is a definite phase error)
Residuals(res) == IF HalfStepLost THEN {Mismatch(res)} ELSE 0..Mismatch(res)
\* orientation with which the magnetic sheet is injected
HSign == CASE Variant = "dir_ignored" -> 1
           [] Variant = "h_sign" -> 0 - Sgn(cfg.dir)
           [] OTHER -> Sgn(cfg.dir)
\* powers for ramp level r (0..RampSteps) and residual d
Fwd2(r, d)  == ((U * r) \div RampSteps) + Sgn(cfg.dir) * HSign * (((U - d) * r) \div RampSteps)
Back2(r, d) == ((U * r) \div RampSteps) - Sgn(cfg.dir) * HSign * (((U - d) * r) \div RampSteps)
PFwd(r, d)  == Fwd2(r, d) * Fwd2(r, d)
PBack(r, d) == Back2(r, d) * Back2(r, d) + (IF cfg.beam = "gauss" THEN (GaussShare * (PFwd(r, d) \div 100)) ELSE 0)

Init == /\ cfg \in Configs
        /\ phase = "Ramp" /\ ramp = 0 /\ pf = 0 /\ pb = 0
RampUp == /\ phase = "Ramp" /\ ramp < RampSteps /\ ramp' = ramp + 1
          /\ \E d \in Residuals(cfg.res) : pf' = PFwd(ramp + 1, d) /\ pb' = PBack(ramp + 1, d)
          /\ UNCHANGED << cfg, phase >>
Settle == /\ phase = "Ramp" /\ ramp = RampSteps /\ phase' = "Steady" /\ UNCHANGED << cfg, ramp, pf, pb >>
Hold == /\ phase = "Steady"
        /\ \E d \in Residuals(cfg.res) : pf' = PFwd(RampSteps, d) /\ pb' = PBack(RampSteps, d)
        /\ UNCHANGED << cfg, phase, ramp >>
Next == RampUp \/ Settle \/ Hold
Spec == Init /\ [][Next]_vars

TypeOK == cfg \in Configs /\ phase \in {"Ramp", "Steady"} /\ ramp \in 0..RampSteps /\ pf >= 0 /\ pb >= 0
\* pb / pf < bound, written without overflow:  pb * k < pf  <=>  pb <= (pf - 1) \div k
Directional == phase = "Steady" =>
    /\ pf > 0
    /\ pb <= (pf - 1) \div (IF cfg.beam = "uniform" THEN 1000 ELSE 10)
ForwardCarriesPower == phase = "Steady" => pf > (U * U)          \* more than a quarter of the ideal (2U)^2
PhaseMonotone == [][phase = "Steady" => phase' = "Steady"]_vars
ConfigCount == Cardinality(Configs) = 576
ASSUME ConfigCount
ASSUME Ppb \div UniformBound = 1000 /\ Ppb \div GaussBound = 10
=============================================================================
