---------------------- MODULE Trace_SymTransform ----------------------
(* Validates calls of the REAL symmetry transforms (fdtdx/objects/device/parameters/symmetries.py) against
   SymTransform.tla.  One record = the transform applied twice to one input:
     kind            transform + options (names of SymTransformDefs)
     shape, inp      input array (row-major flat list of integers)
     err             "" or the exception text
     oshape          shape of the first output
     out1, out2      first and second output, multiplied by `scale` (= 4) and rounded; dev = rounding deviation (ppb)
   TLC evaluates the four predicates of the property on out1 / out2; the last clause compares out1 with the
   model's (in + in o Sigma)/2 and is classified as drift by the harness.                                   *)
EXTENDS Integers, Sequences, FiniteSets, TLC, TLCExt, Json, IOUtils

D == INSTANCE SymTransformDefs

Cases == JsonDeserialize(IOEnv.TRACE_FILE)

VARIABLES ci
tvars == << ci >>

WellFormed(c) ==
    /\ c.kind \in (D!Kinds2D \cup D!Kinds3D)
    /\ Len(c.shape) = 3 /\ D!IsShape(c.shape) /\ D!Applicable(c.kind, c.shape)
    /\ Len(c.inp) = D!Size(c.shape) /\ c.scale = 4
    /\ c.err = "" => /\ Len(c.oshape) >= 0
                     /\ c.oshape = c.shape => Len(c.out1) = Len(c.inp) /\ Len(c.out2) = Len(c.inp)

Verdict(c) ==
    IF ~WellFormed(c) THEN "malformed: record"
    ELSE IF c.err # "" THEN "call: transform raised on a shape it is documented for"
    ELSE IF c.oshape # c.shape THEN "invariance: output has a different shape, cannot equal its own reflection"
    ELSE IF c.dev # 0 THEN "exact: output of an integer (multiple-of-8) input is not on the quarter grid"
    ELSE LET P   == D!Positions(c.shape)
             in  == D!FromFlat(c.shape, c.inp)
             o1  == D!FromFlat(c.shape, c.out1)
             o2  == D!FromFlat(c.shape, c.out2)
             op  == D!KindOp(c.kind, c.shape)
         IN  IF ~D!IsSymmetric(o1, c.shape, c.kind)
             THEN "invariance: output is not invariant under the transform's reflection / rotation / transposition"
             ELSE IF D!IsSymmetric(in, c.shape, c.kind) /\ \E p \in P : o1[p] # c.scale * in[p]
             THEN "identity: an already symmetric input was changed"
             ELSE IF \E p \in P : o2[p] # o1[p]
             THEN "idempotence: second application changed the array"
             ELSE IF D!Total(o1, c.shape) # c.scale * D!Total(in, c.shape)
             THEN "mean: array mean not preserved"
             ELSE IF \E p \in P : o1[p] # 2 * (in[p] + in[D!ApplyOp(op, c.shape, p)])
             THEN "drift: output differs from (in + reflected in) / 2"
             ELSE "ok"

\* ---------- generic floating-point inputs ----------
\* rin / r1 / r2 are the DENSE RANKS of all input / first output / second output values taken together: integers that
\* preserve equality (and order) of the floats exactly, so "bit-exactly invariant / unchanged" is decided here on integers.
\* mdev = |mean(out) - mean(in)| / max|in| in units of 1e-13, mtol the stated tolerance (1e-12 float64, 1e-5 float32).
WellFormedF(c) ==
    /\ c.kind \in (D!Kinds2D \cup D!Kinds3D)
    /\ Len(c.shape) = 3 /\ D!IsShape(c.shape) /\ D!Applicable(c.kind, c.shape)
    /\ c.mtol \in {10, 100000000} /\ c.mdev >= 0
    /\ (c.err = "" /\ c.oshape = c.shape /\ c.finite) =>
          Len(c.rin) = D!Size(c.shape) /\ Len(c.r1) = D!Size(c.shape) /\ Len(c.r2) = D!Size(c.shape)

VerdictF(c) ==
    IF ~WellFormedF(c) THEN "malformed: float record"
    ELSE IF c.err # "" THEN "call: transform raised on a shape it is documented for"
    ELSE IF c.oshape # c.shape THEN "invariance: output has a different shape, cannot equal its own reflection"
    ELSE IF ~c.finite THEN "exact: non-finite output for a finite input"
    ELSE LET P   == D!Positions(c.shape)
             in  == D!FromFlat(c.shape, c.rin)
             o1  == D!FromFlat(c.shape, c.r1)
             o2  == D!FromFlat(c.shape, c.r2)
         IN  IF ~D!IsSymmetric(o1, c.shape, c.kind)
             THEN "invariance: float output is not EXACTLY invariant under the transform's reflection / rotation / transposition"
             ELSE IF D!IsSymmetric(in, c.shape, c.kind) /\ \E p \in P : o1[p] # in[p]
             THEN "identity: an already symmetric float input was changed"
             ELSE IF \E p \in P : o2[p] # o1[p]
             THEN "idempotence: second application changed the float array"
             ELSE IF c.mdev > c.mtol
             THEN "mean: array mean not preserved within the stated relative tolerance"
             ELSE "ok"

VerdictAny(c) == IF c.enc = "rank" THEN VerdictF(c) ELSE Verdict(c)

TInit == ci = 1 /\ TLCSet(1, << >>)
TNext == /\ ci <= Len(Cases)
         /\ TLCSet(1, Append(TLCGet(1), [ id |-> Cases[ci].id, v |-> VerdictAny(Cases[ci]) ]))
         /\ ci' = ci + 1
TSpec == TInit /\ [][TNext]_tvars

Post == ndJsonSerialize(IOEnv.VERDICT_FILE, TLCGet(1))
=======================================================================
