SPECIFICATION Spec
CONSTANTS N = 5  MaxThick = 2  InnerPlain = FALSE  RecordOK = TRUE  RestoreFirst = TRUE
INVARIANT InteriorReconstructed
INVARIANT InteriorNonEmpty
CHECK_DEADLOCK FALSE
