SPECIFICATION Spec
CONSTANTS
  Pairs <- PairsQ
  MaxT = 2
  Variant = "ok"
  Dense = TRUE
  Basis = "auto"
  Singles = "none"
INVARIANT TypeOK
INVARIANT TileInv
INVARIANT BigIsQuasiPeriodic
CHECK_DEADLOCK FALSE
