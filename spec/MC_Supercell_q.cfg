SPECIFICATION Spec
CONSTANTS
  Shapes <- ShapesQ
  Tilings <- TilingsQ
  MaxT = 2
  Variant = "ok"
  Dense = TRUE
INVARIANT TypeOK
INVARIANT TileInv
INVARIANT BigIsQuasiPeriodic
CHECK_DEADLOCK FALSE
