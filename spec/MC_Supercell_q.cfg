SPECIFICATION Spec
CONSTANTS
  Shapes <- ShapesQ
  Tilings <- TilingsQ
  MaxT = 2
  Variant = "ok"
  Dense = TRUE
  Basis = "all"
  Singles = "none"
INVARIANT TypeOK
INVARIANT TileInv
CHECK_DEADLOCK FALSE
