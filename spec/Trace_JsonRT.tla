------------------------ MODULE Trace_JsonRT ------------------------
(* Validates JSON round trips of REAL fdtdx setups (C31).  One record = one scene:
     stage : "ok" | "export_failed" | "import_failed" | "back_place_failed"   (+ err, errcls)
     a, b  : placement of the original setup / of the setup re-imported from its JSON export:
               objs   - placed objects in container order: name, cls, slice (lo/hi per axis, 6 integers), state
                        (<< pytree key, 31-bit SHA-1 fingerprint >> of every array leaf of the placed object)
               arrays - << key, fingerprint >> of every leaf of the returned ArrayContainer (fields E/H/psi,
                        inv_permittivities, inv_permeabilities, conductivities, dispersive coefficients, detector states)
               cfg    - << key, fingerprint >> of the returned SimulationConfig's leaves and derived step count
     items : per exported item (config, objects, constraints): cls, exported field names, names of the fields whose
             exported JSON differs between the original and the re-imported item
   Property clauses (violations): the export can be imported, the import places, same objects, same grid slice per
   object, same array per key.  Model clauses (drift, "model:" prefix): placed object state, and the binding of the
   class table JsonRTDefs!ClassFields to the code (unknown class / field, a placement-read field that changed).  *)
EXTENDS Integers, Sequences, FiniteSets, TLC, TLCExt, Json, IOUtils

D == INSTANCE JsonRTDefs

Cases == JsonDeserialize(IOEnv.TRACE_FILE)
VARIABLES ci

Names(p) == [ i \in 1..Len(p.objs) |-> p.objs[i].name ]
Pairs(s) == [ i \in 1..Len(s) |-> << s[i][1], s[i][2] >> ]
SetOf(s) == { s[i] : i \in 1..Len(s) }

WellFormed(c) ==
    /\ c.stage \in {"ok", "export_failed", "import_failed", "back_place_failed"}
    /\ Len(c.a.objs) >= 1 /\ Len(c.a.arrays) >= 2
    /\ \A i \in 1..Len(c.a.objs) : Len(c.a.objs[i].slice) = 6
    /\ c.stage = "ok" => \A i \in 1..Len(c.b.objs) : Len(c.b.objs[i].slice) = 6

FirstBadObj(c, Bad(_)) == D!Min({ i \in 1..Len(c.a.objs) : Bad(i) })

PropertyVerdict(c) ==
    IF c.stage = "export_failed" THEN "export: the setup cannot be exported (" \o c.errcls \o ")"
    ELSE IF c.stage = "import_failed" THEN "import: the exported setup cannot be imported back (" \o c.errcls \o ")"
    ELSE IF c.stage = "back_place_failed" THEN "place: the re-imported setup does not place although the original does"
    ELSE IF Names(c.a) # Names(c.b) THEN "objects: the re-imported setup places a different list of objects"
    ELSE IF \E i \in 1..Len(c.a.objs) : c.a.objs[i].slice # c.b.objs[i].slice
         THEN "slice: object " \o c.a.objs[CHOOSE i \in 1..Len(c.a.objs) : c.a.objs[i].slice # c.b.objs[i].slice /\ \A j \in 1..(i - 1) : c.a.objs[j].slice = c.b.objs[j].slice].name
              \o " is placed at a different grid slice after the round trip"
    ELSE IF ~D!SameKeys(Pairs(c.a.arrays), Pairs(c.b.arrays)) THEN "array: the array containers have different entries after the round trip"
    ELSE IF D!DiffIdx(Pairs(c.a.arrays), Pairs(c.b.arrays)) # {}
         THEN "array: " \o c.a.arrays[D!Min(D!DiffIdx(Pairs(c.a.arrays), Pairs(c.b.arrays)))][1] \o " differs after the round trip"
    ELSE "ok"

StateDiffers(c, i) == Pairs(c.a.objs[i].state) # Pairs(c.b.objs[i].state)
UnknownItem(c, i) == c.items[i].cls \notin D!KnownClasses
UnknownField(c, i) == ~UnknownItem(c, i) /\ ~(SetOf(c.items[i].exported) \subseteq D!KnownFields(c.items[i].cls))
ReadChanged(c, i) == ~UnknownItem(c, i) /\ SetOf(c.items[i].changed) \cap D!ReadFields(c.items[i].cls) # {}

ModelVerdict(c) ==
    IF c.stage # "ok" THEN "ok"
    ELSE IF \E i \in 1..Len(c.a.objs) : StateDiffers(c, i)
         THEN "model: the placed state of object " \o c.a.objs[CHOOSE i \in 1..Len(c.a.objs) : StateDiffers(c, i)].name \o " differs after the round trip (slices and arrays are equal)"
    ELSE IF Pairs(c.a.cfg) # Pairs(c.b.cfg) THEN "model: the returned configuration differs after the round trip (slices and arrays are equal)"
    ELSE IF \E i \in 1..Len(c.items) : UnknownItem(c, i)
         THEN "model: class " \o c.items[CHOOSE i \in 1..Len(c.items) : UnknownItem(c, i)].cls \o " is not in JsonRTDefs!ClassFields"
    ELSE IF \E i \in 1..Len(c.items) : UnknownField(c, i)
         THEN LET i == CHOOSE j \in 1..Len(c.items) : UnknownField(c, j) IN
              "model: class " \o c.items[i].cls \o " exports fields unknown to JsonRTDefs!ClassFields: " \o ToString(SetOf(c.items[i].exported) \ D!KnownFields(c.items[i].cls))
    ELSE IF \E i \in 1..Len(c.items) : ReadChanged(c, i)
         THEN LET i == CHOOSE j \in 1..Len(c.items) : ReadChanged(c, j) IN
              "model: placement-read fields of " \o c.items[i].cls \o " changed in the round trip but placement is unchanged: " \o ToString(SetOf(c.items[i].changed) \cap D!ReadFields(c.items[i].cls))
    ELSE "ok"

Verdict(c) ==
    IF ~WellFormed(c) THEN "malformed: record shape"
    ELSE LET p == PropertyVerdict(c) IN IF p # "ok" THEN p ELSE ModelVerdict(c)

TInit == ci = 1 /\ TLCSet(1, << >>)
TNext == /\ ci <= Len(Cases)
         /\ LET c == Cases[ci] IN TLCSet(1, Append(TLCGet(1), [ id |-> c.id, v |-> Verdict(c) ]))
         /\ ci' = ci + 1
TSpec == TInit /\ [][TNext]_ci
Post == ndJsonSerialize(IOEnv.VERDICT_FILE, TLCGet(1))
=======================================================================
