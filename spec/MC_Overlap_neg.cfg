SPECIFICATION Spec
CONSTANTS N = 7  Rule = "endpoint_any_axis"  Scene = "reps"
INVARIANT TypeOK
INVARIANT StateIsFresh
INVARIANT AllValid
INVARIANT AppliedOnce
PROPERTY NoApplyDuringParams
CHECK_DEADLOCK FALSE
