SPECIFICATION Spec
CONSTANTS N = 7  SnapWhen = "after_devices"  NCalls = 2  Rule = "endpoint_any_axis"  Scene = "pairq"
INVARIANT TypeOK
INVARIANT StateIsFresh
INVARIANT AllValid
INVARIANT AppliedOnce
INVARIANT HistoryComplete
PROPERTY NoApplyDuringParams
CHECK_DEADLOCK FALSE
