---------------------------- MODULE Projection ----------------------------
(* fdtdx tanh_projection (objects/device/parameters/projection.py) at its two exactly computable settings,
   as a one-step machine

        phase "in" --Apply--> "out"

   mode "zero": beta = 0        -> clip(x, 0, 1)
   mode "inf" : beta = infinity -> 1 if x > eta else 0
   over ALL thresholds eta = en/16 in [0, 1] and the whole input table x = -8/32 .. 40/32.
   The invariants are the clauses of property C20 that can be evaluated exactly; they are the same operators
   (ProjectionDefs) that Trace_Projection applies to the tables produced by the real code for every beta.
   General beta (tanh) is not computable in TLC and is covered by the trace monitor only.
   Variant: "spec" | "no_clip" (beta = 0 returns x) | "step_inverted"                                       *)
EXTENDS ProjectionDefs, TLC

CONSTANTS Variant
XDen == 32
EDen == 16
Xs == [ i \in 1..49 |-> i - 9 ]            \* -8 .. 40  (x = -0.25 .. 1.25)

VARIABLES mode, en, phase, out
vars == << mode, en, phase, out >>

Init == mode \in {"zero", "inf"} /\ en \in 0..EDen /\ phase = "in" /\ out = << >>

Model(x) ==
    IF mode = "zero" THEN (IF Variant = "no_clip" THEN (S \div XDen) * x ELSE ClipScaled(x, XDen))
    ELSE IF Variant = "step_inverted" THEN S - StepScaled(x, XDen, en, EDen)
    ELSE StepScaled(x, XDen, en, EDen)

Apply == /\ phase = "in"
         /\ out' = [ i \in 1..Len(Xs) |-> Model(Xs[i]) ]
         /\ phase' = "out"
         /\ UNCHANGED << mode, en >>
Next == Apply
Spec == Init /\ [][Next]_vars

TypeOK   == phase \in {"in", "out"} /\ mode \in {"zero", "inf"} /\ en \in 0..EDen
Range    == phase = "out" => RangeOK(Xs, XDen, out, 0)
Monotone == phase = "out" => MonotoneOK(Xs, out, 0)
Fixes01  == phase = "out" /\ StrictlyInside(en, EDen) => FixedOK(Xs, XDen, out, 0)
ClipAt0  == phase = "out" /\ mode = "zero" => ClipOK(Xs, XDen, out, 0)
StepAtInf == phase = "out" /\ mode = "inf" => StepOK(Xs, XDen, en, EDen, out, 0)
===========================================================================
