SPECIFICATION Spec
CONSTANTS MaxT = 8  MaxK = 4  Lookup = "first_occurrence"
INVARIANT TypeOK
INVARIANT DecompressCorrect
INVARIANT SlotsComplete
INVARIANT SlotsBijective
INVARIANT SaveSetShape
PROPERTY WriteOnce
CHECK_DEADLOCK FALSE
