-------------------------- MODULE PainterDefs --------------------------
(* Pure definitions for C28 (static materials are painted by placement order), shared by Painter.tla
   and Trace_Painter.tla.  A material property is a 9-sequence (xx,xy,xz,yx,yy,yz,zx,zy,zz) of integers.
   Objects are given in LIST order (index 1 = the volume); each has a placement order `ord`, a cover
   (set of cells), a painted material `mat` and possibly further materials `extra` that it carries in its
   dictionary without painting them (they still count for the tier).                                  *)
EXTENDS Integers, Sequences, FiniteSets, TLC

\* ---------- tiers ----------
OffDiag == {2, 3, 4, 6, 7, 8}
IsDiag(p) == \A i \in OffDiag : p[i] = 0
IsIso(p)  == IsDiag(p) /\ p[1] = p[5] /\ p[5] = p[9]
TierOf(p) == IF IsIso(p) THEN 1 ELSE IF IsDiag(p) THEN 3 ELSE 9
MaxOf(S)  == CHOOSE x \in S : \A y \in S : y <= x
Ident9 == << 1, 0, 0, 0, 1, 0, 0, 0, 1 >>
Zero9  == << 0, 0, 0, 0, 0, 0, 0, 0, 0 >>
\* widest tier any material of the scene needs for property f ("eps", "mu", "se", "sm")
Widest(mats, f) == MaxOf({ TierOf(mats[m][f]) : m \in DOMAIN mats })
NonMagnetic(mats)  == \A m \in DOMAIN mats : mats[m].mu = Ident9
NoElecCond(mats)   == \A m \in DOMAIN mats : mats[m].se = Zero9
NoMagCond(mats)    == \A m \in DOMAIN mats : mats[m].sm = Zero9
\* expected array layout: component counts; 0 = "no array" (scalar permeability 1 / conductivity None)
\* the same with a selectable isotropy test: "full" = IsIso; "ignore_zz" = xx = yy only (WRONG: a tensor that is
\* uniaxial along z passes as isotropic) - used by Painter.tla's SelectTiers so that the wrong test is a negative instance
IsIsoV(p, test) == IF test = "ignore_zz" THEN IsDiag(p) /\ p[1] = p[5] ELSE IsIso(p)
TierOfV(p, test) == IF IsIsoV(p, test) THEN 1 ELSE IF IsDiag(p) THEN 3 ELSE 9
WidestV(mats, f, test) == MaxOf({ TierOfV(mats[m][f], test) : m \in DOMAIN mats })
ExpTiersV(mats, test) == [ eps |-> WidestV(mats, "eps", test),
                           mu  |-> IF NonMagnetic(mats) THEN 0 ELSE WidestV(mats, "mu", test),
                           se  |-> IF NoElecCond(mats) THEN 0 ELSE WidestV(mats, "se", test),
                           sm  |-> IF NoMagCond(mats) THEN 0 ELSE WidestV(mats, "sm", test) ]
ExpTiers(mats) == [ eps |-> Widest(mats, "eps"),
                    mu  |-> IF NonMagnetic(mats) THEN 0 ELSE Widest(mats, "mu"),
                    se  |-> IF NoElecCond(mats) THEN 0 ELSE Widest(mats, "se"),
                    sm  |-> IF NoMagCond(mats) THEN 0 ELSE Widest(mats, "sm") ]
\* stored components of a property at a tier, as the full 9-sequence they stand for
Expand(v, t) == IF t = 1 THEN << v[1], 0, 0, 0, v[1], 0, 0, 0, v[1] >>
                ELSE IF t = 3 THEN << v[1], 0, 0, 0, v[2], 0, 0, 0, v[3] >> ELSE v
Project(p, t) == IF t = 1 THEN << p[1] >> ELSE IF t = 3 THEN << p[1], p[5], p[9] >> ELSE p
\* 3x3 product of row-major 9-sequences
MatMul(a, b) == [ k \in 1..9 |-> LET i == (k - 1) \div 3  j == (k - 1) % 3
                                 IN a[3*i + 1] * b[j + 1] + a[3*i + 2] * b[3 + j + 1] + a[3*i + 3] * b[6 + j + 1] ]
Scaled(s) == << s, 0, 0, 0, s, 0, 0, 0, s >>
\* v (stored components, integers in units of 1/s) is the inverse of property p at tier t
IsInverse(v, t, p, s) == MatMul(p, Expand(v, t)) = Scaled(s)

\* ---------- the painter's rule (declarative) ----------
\* object i beats object j if it has the higher placement order, list position breaking ties
Beats(objs, i, j) == objs[i].ord > objs[j].ord \/ (objs[i].ord = objs[j].ord /\ i > j)
Covering(objs, c) == { i \in DOMAIN objs : c \in objs[i].cover }
Top(objs, c) == CHOOSE i \in Covering(objs, c) : \A j \in Covering(objs, c) \ {i} : Beats(objs, i, j)
TopAmong(objs, S, c) == LET K == Covering(objs, c) \cap S IN
                        IF K = {} THEN 0 ELSE CHOOSE i \in K : \A j \in K \ {i} : Beats(objs, i, j)

\* ---------- the assembly order (code shaped): stable sort by placement order ----------
Perms(n) == { s \in [1..n -> 1..n] : \A i, j \in 1..n : i # j => s[i] # s[j] }
\* variant "stable" = sorted(objects, key=placement_order) (Python's sort is stable)
\* wrong variants: "reverse_ties" (ties in reverse list order), "list_order" (placement order ignored),
\* "arbitrary_ties" (any permutation sorted by placement order, see SortedAnyTies)
Before(objs, i, j, variant) ==
    CASE variant = "reverse_ties" -> objs[i].ord < objs[j].ord \/ (objs[i].ord = objs[j].ord /\ i > j)
      [] variant = "list_order"   -> i < j
      [] OTHER                    -> objs[i].ord < objs[j].ord \/ (objs[i].ord = objs[j].ord /\ i < j)
\* Before is a strict total order on the list indices, so the sorted sequence is given by ranks
\* (no search over permutations: works for any number of objects)
Rank(objs, i, variant) == 1 + Cardinality({ j \in DOMAIN objs : j # i /\ Before(objs, j, i, variant) })
PaintOrder(objs, variant) ==
    [ a \in 1..Len(objs) |-> CHOOSE i \in DOMAIN objs : Rank(objs, i, variant) = a ]
\* every sequence that is sorted by placement order but resolves ties ARBITRARILY (what a non-stable sort
\* such as numpy.argsort may return); the stable order is one of them
SortedAnyTies(objs) ==
    { s \in Perms(Len(objs)) : \A a, b \in 1..Len(objs) : a < b => objs[s[a]].ord <= objs[s[b]].ord }
========================================================================
