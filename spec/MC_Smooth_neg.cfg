SPECIFICATION Spec
CONSTANTS
  Kernels = { "binomial" }
  Grids <- GridsT2
  Vals <- Bits
  PadVals <- Two
  PadMode = "zero"
INVARIANT TypeOK
INVARIANT Constants
CHECK_DEADLOCK TRUE
