-------------------------- MODULE Trace_Wave --------------------------
(* Validates what the REAL WaveCharacter / temporal profiles (on /repo/src) returned against WaveDefs.tla.
   Record kinds:
     "wave_exact"  inputs whose exact results are binary floating-point numbers (powers of two, c * 2^-k): the three
                   getters' results are sent as << m, e >> = m * 2^e and TLC checks  P * F = 1,  L = c * P  and that
                   the given quantity comes back, in integer arithmetic (no tolerance).
     "wave_tol"    seeded random floats: the harness evaluates the residuals |P*F - 1| and |L - c*P| / L exactly with
                   rationals (fractions.Fraction of the floats) and sends them in units of 1e-15; the spec owns the
                   bound (tol = 1000, i.e. 1e-12).  The given quantity must come back bit-identical (sign, two mantissa
                   limbs, exponent).
     "signal"      CustomTimeSignalProfile with samples that are multiples of 1/4 evaluated at quarter points of the
                   sample grid (all exact in float64): values * 16 as integers; TLC checks AtSampleTimes and
                   LinearBetween of WaveDefs on them (and, as drift, the full model Amp incl. outside value / hold).
     "cw", "pulse" trace-monitor clauses: amplitudes and envelopes on a time grid as integers (value * scale).     *)
EXTENDS Integers, Sequences, FiniteSets, TLC, TLCExt, Json, IOUtils

W == INSTANCE WaveDefs

Cases == JsonDeserialize(IOEnv.TRACE_FILE)
VARIABLES ci
tvars == << ci >>

Given == { "period", "frequency", "wavelength" }

WaveExactVerdict(c) ==
    IF ~(c.given \in Given) THEN "malformed: wave record"
    ELSE IF ~c.representable THEN "wave: a result is not the exactly representable value"
    ELSE IF ~W!DyEq(W!DyMul(c.P, c.F), W!DyOne) THEN "wave: period * frequency # 1"
    ELSE IF ~W!DyEq(c.L, W!DyMul(W!DyC0, c.P)) THEN "wave: wavelength # c * period"
    ELSE IF ~W!DyEq(c.x, CASE c.given = "period" -> c.P [] c.given = "frequency" -> c.F [] OTHER -> c.L)
         THEN "wave: the given quantity does not come back"
    ELSE "ok"

WaveTolVerdict(c) ==
    IF ~(c.given \in Given /\ c.tol > 0 /\ c.tol <= 1000) THEN "malformed: wave record"
    ELSE IF c.res_pf > c.tol THEN "wave: period * frequency # 1"
    ELSE IF c.res_l > c.tol THEN "wave: wavelength # c * period"
    ELSE IF c.bits_in # c.bits_out THEN "wave: the given quantity does not come back"
    ELSE "ok"

\* ---------- sampled signal ----------
\* The samples may be handed over in any array-like form (Python ints, integer / float32 / float64 numpy arrays, mixed
\* lists, booleans, complex numbers: field `given`); the claim is the same for all of them.  A complex signal is its real
\* and imaginary part, each interpolated on its own: y4 / v16 are the real parts, y4i / v16i the imaginary parts (all zero
\* for a real signal, whose result must have no imaginary part either).
PartVerdict(c, y, v, og) ==
    IF \E k \in 1..Len(c.js) : ~og[k] /\ c.js[k] >= 0 /\ W!SampleIdx(c.js[k], 4) + 2 <= Len(y)
         THEN "signal: value between two samples is not on their chord"       \* the chord is on the 1/16 grid, the value is not
    ELSE IF \E k \in 1..Len(c.js) : ~W!AtSampleTimes(y, c.js[k], 4, << v[k], 4 >>) THEN "signal: sample not reproduced at its sample time"
    ELSE IF \E k \in 1..Len(c.js) : ~W!LinearBetween(y, c.js[k], 4, << v[k], 4 >>) THEN "signal: value between two samples is not on their chord"
    ELSE ""
ModelOK(c, y, v, og, outside) == \A k \in 1..Len(c.js) : og[k] /\ << v[k], 4 >> = W!Amp(y, c.js[k], 4, outside, "linear")
SignalVerdict(c) ==
    IF ~(c.sub = 4 /\ Len(c.y4) >= 2 /\ Len(c.y4i) = Len(c.y4) /\ Len(c.js) = Len(c.v16) /\ Len(c.js) = Len(c.ongrid)
         /\ Len(c.js) = Len(c.v16i) /\ Len(c.js) = Len(c.ongridi)) THEN "malformed: signal record"
    ELSE IF ~c.exact_times THEN "malformed: time grid is not exact in the dtype of the time array"
    ELSE IF ~c.built THEN "signal: the profile rejected a legal sample array"
    ELSE LET re == PartVerdict(c, c.y4, c.v16, c.ongrid)
             im == PartVerdict(c, c.y4i, c.v16i, c.ongridi)
         IN  IF re # "" THEN re
             ELSE IF im # "" THEN im
             ELSE IF ~(ModelOK(c, c.y4, c.v16, c.ongrid, c.outside4) /\ ModelOK(c, c.y4i, c.v16i, c.ongridi, 0))
                  THEN "model: outside value / hold of the last sample differs from the model"
             ELSE "ok"

\* ---------- continuous wave: ramps up, never exceeds unit amplitude ----------
CwVerdict(c) ==
    LET n == Len(c.amp) IN
    IF ~(n >= 4 /\ Len(c.ramp) = n /\ c.scale > 0 /\ c.k_full \in 1..n) THEN "malformed: cw record"
    ELSE IF c.any_above_one THEN "cw: amplitude exceeds 1"
    ELSE IF ~W!AllWithin(c.amp, c.scale) THEN "cw: amplitude exceeds 1"
    ELSE IF ~(c.ramp[1] = 0 /\ W!NonDecreasing(c.ramp) /\ W!AllWithin(c.ramp, c.scale)) THEN "cw: ramp does not start at 0 / decreases / exceeds 1"
    ELSE IF \E k \in c.k_full..n : c.ramp[k] # c.scale THEN "cw: ramp is not complete after the start-up periods"
    ELSE IF \E k \in 1..n : W!Abs(c.amp[k]) > c.ramp[k] + c.tol THEN "cw: amplitude exceeds the ramp"
    ELSE IF ~(\E k \in c.k_full..n : W!Abs(c.amp[k]) >= c.scale - c.reach_tol) THEN "cw: never reaches unit amplitude"
    ELSE "ok"

\* ---------- Gaussian pulse: envelope never exceeds 1 ----------
PulseVerdict(c) ==
    LET n == Len(c.amp) IN
    IF ~(n >= 4 /\ Len(c.env2) = n /\ Len(c.env) = n /\ c.scale > 0) THEN "malformed: pulse record"
    ELSE IF c.any_above_one THEN "pulse: amplitude or envelope exceeds 1"
    ELSE IF ~(W!AllWithin(c.amp, c.scale) /\ W!AllWithin(c.env, c.scale)) THEN "pulse: amplitude or envelope exceeds 1"
    ELSE IF \E k \in 1..n : c.env2[k] > c.scale + c.tol THEN "pulse: amplitude or envelope exceeds 1"
    ELSE IF \E k \in 1..n : c.env[k] < 0 \/ W!Abs(c.amp[k]) > c.env[k] + c.tol THEN "pulse: amplitude exceeds the envelope"
    ELSE IF ~(\E k \in 1..n : c.env[k] >= c.scale \div 2) THEN "shape: envelope never gets near its peak on a grid that covers it"
    ELSE "ok"

Verdict(c) == CASE c.kind = "wave_exact" -> WaveExactVerdict(c) [] c.kind = "wave_tol" -> WaveTolVerdict(c)
                [] c.kind = "signal" -> SignalVerdict(c) [] c.kind = "cw" -> CwVerdict(c) [] c.kind = "pulse" -> PulseVerdict(c)
                [] OTHER -> "malformed: kind"

TInit == ci = 1 /\ TLCSet(1, << >>)
TNext == /\ ci <= Len(Cases)
         /\ TLCSet(1, Append(TLCGet(1), [ id |-> Cases[ci].id, v |-> Verdict(Cases[ci]) ]))
         /\ ci' = ci + 1
TSpec == TInit /\ [][TNext]_tvars
Post == ndJsonSerialize(IOEnv.VERDICT_FILE, TLCGet(1))
=======================================================================
