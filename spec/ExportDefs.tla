-------------------------- MODULE ExportDefs --------------------------
(* Pure definitions for the array export paths of fdtdx, shared by Export.tla (state machine, model-checked)
   and Trace_Export.tla (conformance):
     fdtdx/conversion/vti.py   export_vti / export_vtr / encode_array   (VTK XML ImageData / RectilinearGrid)
     fdtdx/conversion/stl.py   export_stl                               (boolean voxel mask -> triangle mesh)
     fdtdx/core/progress.py    _auto_update_interval, SimulationProgressBar (time-loop progress reporting)
   Everything is exact integer arithmetic.  Indices are 0-based, as in the code.                       *)
EXTENDS Integers, Sequences, FiniteSets, TLC

Cells(s) == (0..(s[1] - 1)) \X (0..(s[2] - 1)) \X (0..(s[3] - 1))
NCells(s) == s[1] * s[2] * s[3]

\* ================================================================ VTI (rule 1)
\* An exported array is either a plain 3-D array (nx,ny,nz)  [nc = 0, written with NumberOfComponents="1"]
\* or a component array (nc,nx,ny,nz) [nc >= 1].
NComp(nc) == IF nc = 0 THEN 1 ELSE nc
\* VTK ImageData orders the cells (tuples) x-fastest ...
TupleIdx(s, p) == p[1] + s[1] * (p[2] + s[2] * p[3])
\* ... and stores the components of one tuple next to each other (interleaved).
VtkPos(nc, s, c, p) == c + NComp(nc) * TupleIdx(s, p)
\* what a VTK reader does with position m of a DataArray
VtkCell(s, t) == << t % s[1], (t \div s[1]) % s[2], t \div (s[1] * s[2]) >>
VtkComp(nc, m) == m % NComp(nc)
VtkTuple(nc, m) == m \div NComp(nc)

\* implementation-shaped flattening: position of multi-index q (0-based sequence) in an array of dims d
RECURSIVE FPos(_, _, _)
FPos(d, q, r) == IF r > Len(d) THEN 0 ELSE q[r] + d[r] * FPos(d, q, r + 1)        \* order="F": first index fastest
RECURSIVE CPosAcc(_, _, _, _)
CPosAcc(d, q, r, acc) == IF r > Len(d) THEN acc ELSE CPosAcc(d, q, r + 1, acc * d[r] + q[r])   \* order="C": last index fastest
CPos(d, q) == CPosAcc(d, q, 1, 0)
Dims(nc, s) == IF nc = 0 THEN s ELSE << nc >> \o s
MIdx(nc, c, p) == IF nc = 0 THEN p ELSE << c >> \o p

\* header attributes: offset (cells) of the exported block in the global grid
Extent(off, s) == << off[1], off[1] + s[1], off[2], off[2] + s[2], off[3], off[3] + s[3] >>
VtkTypeOf(dtype) ==
    CASE dtype = "int8" -> "Int8" [] dtype = "uint8" -> "UInt8" [] dtype = "int16" -> "Int16" [] dtype = "uint16" -> "UInt16"
      [] dtype = "int32" -> "Int32" [] dtype = "uint32" -> "UInt32" [] dtype = "int64" -> "Int64" [] dtype = "uint64" -> "UInt64"
      [] dtype = "float32" -> "Float32" [] dtype = "float64" -> "Float64" [] OTHER -> "unsupported"
ItemSize(dtype) ==
    CASE dtype \in {"int8", "uint8"} -> 1 [] dtype \in {"int16", "uint16"} -> 2 [] dtype \in {"int32", "uint32", "float32"} -> 4
      [] OTHER -> 8
\* VTK places point index i of an ImageData at  Origin + i * Spacing  where i runs over the EXTENT (vtkImageData::GetPoint,
\* ComputeBounds).  The lower corner of the first exported cell therefore sits at Origin + ExtentMin * Spacing and has to be
\* the physical coordinate of global cell `off`:  e0 + off * res  (e0 = coordinate of grid edge 0; all in the same unit).
Anchored(origin, extmin, spacing, e0, off, res) == origin + extmin * spacing = e0 + off * res

\* ================================================================ STL (rule 2)
\* side order of the implementation: 1 left(-x) 2 front(-y) 3 bottom(-z) 4 right(+x) 5 back(+y) 6 top(+z)
Dirs == 1..6
DirAxis(d) == ((d - 1) % 3) + 1
DirSign(d) == IF d <= 3 THEN -1 ELSE 1
DirVec(d) == [ a \in 1..3 |-> IF a = DirAxis(d) THEN DirSign(d) ELSE 0 ]
Opp(d) == IF d <= 3 THEN d + 3 ELSE d - 3
Nb(p, d) == << p[1] + DirVec(d)[1], p[2] + DirVec(d)[2], p[3] + DirVec(d)[3] >>
\* F = set of filled voxels (a subset of Cells(s)); everything outside the array is empty
ExposedFaces(F) == { f \in F \X Dirs : Nb(f[1], f[2]) \notin F }

Add(u, v) == << u[1] + v[1], u[2] + v[2], u[3] + v[3] >>
Sub(u, v) == << u[1] - v[1], u[2] - v[2], u[3] - v[3] >>
Cross(u, v) == << u[2] * v[3] - u[3] * v[2], u[3] * v[1] - u[1] * v[3], u[1] * v[2] - u[2] * v[1] >>
Normal(t) == Cross(Sub(t[2], t[1]), Sub(t[3], t[1]))        \* right-hand rule, length = 2 * area
Min3(a, b, c) == IF a <= b /\ a <= c THEN a ELSE IF b <= c THEN b ELSE c
Max3(a, b, c) == IF a >= b /\ a >= c THEN a ELSE IF b >= c THEN b ELSE c
LowCorner(t) == [ a \in 1..3 |-> Min3(t[1][a], t[2][a], t[3][a]) ]
\* side whose outward unit vector is n (0: n is not a unit axis vector)
NormalDir(n) == IF n = << -1, 0, 0 >> THEN 1 ELSE IF n = << 0, -1, 0 >> THEN 2 ELSE IF n = << 0, 0, -1 >> THEN 3
                ELSE IF n = << 1, 0, 0 >> THEN 4 ELSE IF n = << 0, 1, 0 >> THEN 5 ELSE IF n = << 0, 0, 1 >> THEN 6 ELSE 0
\* a lattice triangle is one half of a unit lattice square iff its normal is +-e_a and its bounding box is 1 x 1
HalfQuad(t) == /\ NormalDir(Normal(t)) # 0
               /\ \A a \in 1..3 : Max3(t[1][a], t[2][a], t[3][a]) - Min3(t[1][a], t[2][a], t[3][a]) <= 1
TriDir(t) == NormalDir(Normal(t))
\* the (voxel, side) pair whose OUTWARD face the half-quad t lies on: the voxel behind the face (against the normal)
TriFace(t) == LET d == TriDir(t)  a == DirAxis(d)  q == LowCorner(t)
              IN  << [ b \in 1..3 |-> IF b = a /\ DirSign(d) = 1 THEN q[b] - 1 ELSE q[b] ], d >>
Flip(t) == << t[1], t[3], t[2] >>
\* corner of the unit square that t does not use
Missing(t) == LET d == TriDir(t)  a == DirAxis(d)  q == LowCorner(t)
              IN  [ b \in 1..3 |-> 4 * q[b] + (IF b = a THEN 0 ELSE 2) - t[1][b] - t[2][b] - t[3][b] ]
\* two half-quads of the same face tile it iff their missing corners are diagonal
Diagonal(u, v) == Cardinality({ b \in 1..3 : u[b] # v[b] }) = 2

\* tris = sequence of triangles << v1, v2, v3 >>, vertices in lattice units
FacesOf(tris) == TLCEval([ i \in 1..Len(tris) |-> TriFace(tris[i]) ])        \* TLCEval: evaluate once, not per lookup
\* ExposedFacesOnly: the triangles are exactly the exposed voxel faces, two tiling half-quads each, oriented outward
AllHalfQuads(tris) == \A i \in 1..Len(tris) : HalfQuad(tris[i])
NoForeignFace(F, tris) == LET fs == FacesOf(tris) ex == ExposedFaces(F) IN \A i \in 1..Len(tris) : fs[i] \in ex
\* a triangle whose face is not exposed but whose mirror image is: the surface is there, the winding is inverted
InwardOnly(F, tris) == LET ex == ExposedFaces(F) IN
    \A i \in 1..Len(tris) : TriFace(tris[i]) \notin ex => TriFace(Flip(tris[i])) \in ex
TwoPerFace(F, tris) ==
    LET fs == FacesOf(tris)  ms == TLCEval([ i \in 1..Len(tris) |-> Missing(tris[i]) ]) IN
    \A f \in ExposedFaces(F) :
        LET I == { i \in 1..Len(tris) : fs[i] = f } IN
        /\ Cardinality(I) = 2
        /\ \A i, j \in I : i # j => Diagonal(ms[i], ms[j])
ExposedFacesOnly(F, tris) == AllHalfQuads(tris) /\ NoForeignFace(F, tris) /\ TwoPerFace(F, tris)

\* edges
DEdges(tris) == TLCEval([ k \in 1..(3 * Len(tris)) |->
                    LET t == tris[((k - 1) \div 3) + 1]  e == (k - 1) % 3
                    IN  << t[e + 1], t[((e + 1) % 3) + 1] >> ])
Rev(e) == << e[2], e[1] >>
CountD(E, e) == Cardinality({ k \in 1..Len(E) : E[k] = e })
EdgeSet(E) == { E[k] : k \in 1..Len(E) }
\* Watertight: every edge is shared by exactly two triangles, which traverse it in opposite directions
\* (no directed edge occurs twice, and the reverse of every directed edge occurs)
Watertight(tris) == LET E == DEdges(tris)  S == EdgeSet(E) IN Cardinality(S) = Len(E) /\ \A e \in S : Rev(e) \in S
\* Oriented: every directed edge is used as often as its reverse (closed, consistently oriented surface)
Oriented(tris) == LET E == DEdges(tris)  S == EdgeSet(E) IN
    IF Cardinality(S) = Len(E) THEN \A e \in S : Rev(e) \in S
    ELSE \A e \in S : CountD(E, e) = CountD(E, Rev(e))
\* Two filled voxels that touch along a lattice edge only (both voxels between them empty) put four faces on that edge.
EdgeNbs(p) == { q \in { << p[1] + dx, p[2] + dy, p[3] + dz >> : dx \in {-1, 0, 1}, dy \in {-1, 0, 1}, dz \in {-1, 0, 1} } :
                    Cardinality({ b \in 1..3 : q[b] # p[b] }) = 2 }
Between(p, q) == { r \in { << x, y, z >> : x \in {p[1], q[1]}, y \in {p[2], q[2]}, z \in {p[3], q[3]} } : r # p /\ r # q }
PinchFree(F) == \A p \in F : \A q \in EdgeNbs(p) \cap F : Between(p, q) \cap F # {}
\* face-connectedness (6-neighbourhood) of the filled set
RECURSIVE Reach(_, _)
Reach(F, R) == LET R2 == R \cup { q \in F : \E p \in R, d \in Dirs : Nb(p, d) = q } IN IF R2 = R THEN R ELSE Reach(F, R2)
FaceConnected(F) == F = {} \/ Reach(F, { CHOOSE p \in F : TRUE }) = F

\* implementation-shaped construction (stl.py): corner k of the voxel has offset (k div 4, (k div 2) mod 2, k mod 2)
Corner(p, k) == << p[1] + (k \div 4), p[2] + ((k \div 2) % 2), p[3] + (k % 2) >>
SideTris == << << <<0, 1, 2>>, <<1, 3, 2>> >>,      \* left
               << <<0, 4, 5>>, <<5, 1, 0>> >>,      \* front
               << <<0, 2, 6>>, <<6, 4, 0>> >>,      \* bottom
               << <<4, 6, 7>>, <<7, 5, 4>> >>,      \* right
               << <<2, 3, 7>>, <<7, 6, 2>> >>,      \* back
               << <<1, 5, 3>>, <<3, 5, 7>> >> >>    \* top
ImplTri(p, d, n, variant) ==
    LET ks == SideTris[d][n]
        t == << Corner(p, ks[1]), Corner(p, ks[2]), Corner(p, ks[3]) >>
    IN  IF variant = "flip_top" /\ d = 6 THEN Flip(t) ELSE t
ImplUses(F, p, d, variant) ==
    /\ p \in F
    /\ \/ variant = "internal_faces"
       \/ Nb(p, d) \notin F
\* voxels in C order (x slowest), sides 1..6, triangle 1 then 2  (boolean-mask selection of faces_raw)
CellSeq(s) == [ m \in 1..NCells(s) |-> << (m - 1) \div (s[2] * s[3]), ((m - 1) \div s[3]) % s[2], (m - 1) % s[3] >> ]
RECURSIVE Concat(_, _)
Concat(ss, i) == IF i > Len(ss) THEN << >> ELSE ss[i] \o Concat(ss, i + 1)
ImplTris(F, s, variant) ==
    LET cs == CellSeq(s)
        per(p) == Concat([ d \in 1..6 |-> IF ~ImplUses(F, p, d, variant) THEN << >>
                                           ELSE IF variant = "one_tri" THEN << ImplTri(p, d, 1, variant) >>
                                           ELSE << ImplTri(p, d, 1, variant), ImplTri(p, d, 2, variant) >> ], 1)
    IN  Concat([ m \in 1..Len(cs) |-> per(cs[m]) ], 1)
ScaleTri(t, sc) == [ v \in 1..3 |-> [ b \in 1..3 |-> t[v][b] * sc[b] ] ]
OnLattice(t, s, sc) == \A v \in 1..3, b \in 1..3 : t[v][b] % sc[b] = 0 /\ t[v][b] \div sc[b] \in 0..s[b]
Unscale(t, sc) == [ v \in 1..3 |-> [ b \in 1..3 |-> t[v][b] \div sc[b] ] ]

\* ================================================================ progress (rule 3)
\* smallest c in {1,2,5} x 10^k with 20 c >= total  (1 for total <= 20): at most 20 updates per run
RECURSIVE NiceFrom(_, _)
NiceFrom(total, mag) == IF 20 * mag >= total THEN mag ELSE IF 40 * mag >= total THEN 2 * mag
                        ELSE IF 100 * mag >= total THEN 5 * mag ELSE NiceFrom(total, 10 * mag)
NiceInterval(total) == NiceFrom(total, 1)
\* reports of a run over the absolute steps start..end-1 : one per step on the interval grid (position relative to
\* the segment start), then the closing report (total, total)
StepReports(start, end, iv) == SelectSeq([ k \in 1..(end - start) |-> start + k - 1 ], LAMBDA t : t % iv = 0)
ExpectedCalls(start, end, iv) ==
    LET st == StepReports(start, end, iv) IN [ k \in 1..Len(st) |-> st[k] - start ] \o << end - start >>
=======================================================================
