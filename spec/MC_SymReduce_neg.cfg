SPECIFICATION Spec
CONSTANTS
  Shapes <- ShapesQ
  MaxT = 1
  Variant = "mirror_off_by_one"
INVARIANT TypeOK
INVARIANT SymInv
INVARIANT StaysConsistent
CHECK_DEADLOCK FALSE
