SPECIFICATION Spec
CONSTANTS MaxN = 2  Variant = "plain_flip_on_plane"  SubsetMode = "few"  AssertOnPlaneToo = FALSE
INVARIANT TypeOK
INVARIANT UpperIsOriginal
INVARIANT MirrorParity
INVARIANT ClosedForm
INVARIANT FillRepeats
INVARIANT ReduceCommutes
CHECK_DEADLOCK FALSE
