---------------------------- MODULE Export ----------------------------
(* Array export paths of fdtdx as small machines shaped like the code.

   kind = "vti"  (conversion/vti.py: encode_array + export_vti, and a VTK reader)
        array --Flatten--> flat byte-order sequence --Parse--> array as a VTK reader rebuilds it
        Flatten is `array.flatten(order="F")` on the (nx,ny,nz) or (nc,nx,ny,nz) array.
        Invariants  XFastest   value of component c of cell (i,j,k) sits at position c + nc*(i + nx*(j + ny*k))
                    RoundTrip  the reader gets the original array back
   kind = "stl"  (conversion/stl.py: export_stl, and an STL reader)
        mask --Triangulate--> triangle list (scaled by the voxel size) --Parse--> lattice triangles
        Invariants  OnLatticeInv      vertices are lattice points times the voxel size
                    ExposedFacesOnly  triangles = the exposed (voxel, side) faces, two tiling half-quads each,
                                      normals (right-hand rule) outward;  count = 2 * #exposed faces
                    Oriented          every directed edge is matched by its reverse (all masks)
                    Watertight        every edge shared by exactly two triangles  <=>  the solid has no two voxels
                                      touching along an edge only (PinchFree).  Face-connectedness is NOT sufficient:
                                      MC_Export_neg4 (AssertFaceConnectedSuffices) is rejected by TLC.
   Variant selects deliberately wrong implementations (negative instances):
        "c_order"        flatten z-fastest                "planar"      components not interleaved
        "internal_faces" faces between filled voxels kept  "one_tri"     one triangle per face
        "flip_top"       winding of the +z side inverted                                                   *)
EXTENDS ExportDefs

CONSTANTS MaxN,        \* vti: shapes (1..MaxN)^3
          MaxC,        \* vti: component counts 0 (plain 3-D array) .. MaxC
          FullN,       \* stl: every mask on every shape (1..FullN)^3
          SampleK,     \* stl: on the shapes in SampleShapes all masks with <= SampleK filled or <= SampleK empty voxels
          SampleSet,   \* "n" (no sample shapes) | "q" | "t"
          Variant,
          AssertFaceConnectedSuffices

VARIABLES kind, stage, shp, nc, orig, flat, parsed, F, sc, tris, ltris
vars == << kind, stage, shp, nc, orig, flat, parsed, F, sc, tris, ltris >>

SampleShapes == IF SampleSet = "n" THEN { }
                ELSE IF SampleSet = "q" THEN { <<3, 3, 2>> }
                ELSE { <<3, 3, 2>>, <<3, 2, 2>>, <<2, 3, 3>>, <<3, 1, 3>>, <<1, 3, 2>>, <<3, 3, 3>> }
Scales == IF SampleSet = "t" THEN { <<1, 1, 1>>, <<2, 3, 4>> } ELSE { <<2, 3, 4>> }       \* voxel sizes
RECURSIVE SmallSets(_, _)
SmallSets(S, k) == IF k = 0 THEN { {} } ELSE LET r == SmallSets(S, k - 1) IN r \cup { x \cup {a} : x \in r, a \in S }
Masks(s) == IF s \in SampleShapes
            THEN LET small == SmallSets(Cells(s), SampleK) IN small \cup { Cells(s) \ S : S \in small }
            ELSE SUBSET Cells(s)

Label(c, p) == 1 + c + 4 * (p[1] + 3 * (p[2] + 3 * p[3]))         \* injective, > 0
CompIdx(n) == 0..(NComp(n) - 1)

Init == /\ stage = "in"
        /\ flat = << >> /\ parsed = << >> /\ tris = << >> /\ ltris = << >>
        /\ \/ /\ kind = "vti"
              /\ shp \in (1..MaxN) \X (1..MaxN) \X (1..MaxN)
              /\ nc \in 0..MaxC
              /\ orig = [ c \in CompIdx(nc) |-> [ p \in Cells(shp) |-> Label(c, p) ] ]
              /\ F = {} /\ sc = <<1, 1, 1>>
           \/ /\ kind = "stl"
              /\ shp \in ((1..FullN) \X (1..FullN) \X (1..FullN)) \cup SampleShapes
              /\ F \in Masks(shp)
              /\ sc \in Scales
              /\ nc = 0 /\ orig = << >>

\* ---------------------------------------------------------------- vti
\* flatten: position m holds the element whose multi-index has position m in the chosen order
PosOf(c, p) ==
    IF Variant = "c_order" THEN CPos(Dims(nc, shp), MIdx(nc, c, p))
    ELSE IF Variant = "planar" THEN c * NCells(shp) + TupleIdx(shp, p)
    ELSE FPos(Dims(nc, shp), MIdx(nc, c, p), 1)
Flatten ==
    /\ kind = "vti" /\ stage = "in"
    /\ flat' = [ m \in 0..(NComp(nc) * NCells(shp) - 1) |->
                   LET cp == CHOOSE cp \in CompIdx(nc) \X Cells(shp) : PosOf(cp[1], cp[2]) = m IN orig[cp[1]][cp[2]] ]
    /\ stage' = "out"
    /\ UNCHANGED << kind, shp, nc, orig, parsed, F, sc, tris, ltris >>
\* a VTK reader: tuple t of the DataArray belongs to cell (t mod nx, (t div nx) mod ny, t div (nx ny))
ParseVti ==
    /\ kind = "vti" /\ stage = "out"
    /\ parsed' = [ c \in CompIdx(nc) |-> [ p \in Cells(shp) |->
                     LET m == CHOOSE m \in DOMAIN flat : VtkComp(nc, m) = c /\ VtkCell(shp, VtkTuple(nc, m)) = p IN flat[m] ] ]
    /\ stage' = "back"
    /\ UNCHANGED << kind, shp, nc, orig, flat, F, sc, tris, ltris >>

\* ---------------------------------------------------------------- stl
Triangulate ==
    /\ kind = "stl" /\ stage = "in"
    /\ tris' = LET lt == ImplTris(F, shp, Variant) IN TLCEval([ i \in 1..Len(lt) |-> ScaleTri(lt[i], sc) ])
    /\ stage' = "out"
    /\ UNCHANGED << kind, shp, nc, orig, flat, parsed, F, sc, ltris >>
ParseStl ==
    /\ kind = "stl" /\ stage = "out"
    /\ ltris' = TLCEval([ i \in 1..Len(tris) |-> Unscale(tris[i], sc) ])
    /\ stage' = "back"
    /\ UNCHANGED << kind, shp, nc, orig, flat, parsed, F, sc, tris >>

Next == Flatten \/ ParseVti \/ Triangulate \/ ParseStl
Spec == Init /\ [][Next]_vars

\* ---------------------------------------------------------------- properties
TypeOK == /\ kind \in {"vti", "stl"} /\ stage \in {"in", "out", "back"}
          /\ (kind = "vti" /\ stage # "in") => DOMAIN flat = 0..(NComp(nc) * NCells(shp) - 1)
XFastest == (kind = "vti" /\ stage # "in") =>
    \A c \in CompIdx(nc), p \in Cells(shp) : flat[VtkPos(nc, shp, c, p)] = orig[c][p]
RoundTrip == (kind = "vti" /\ stage = "back") => parsed = orig

Mesh == kind = "stl" /\ stage = "back"
OnLatticeInv == (kind = "stl" /\ stage # "in") => \A i \in 1..Len(tris) : OnLattice(tris[i], shp, sc)
ExposedFacesOnlyInv == Mesh => ExposedFacesOnly(F, ltris)
TriCount == Mesh => Len(ltris) = 2 * Cardinality(ExposedFaces(F))
OrientedInv == Mesh => Oriented(ltris)
WatertightInv == Mesh => (Watertight(ltris) <=> PinchFree(F))
\* only asserted in the negative instance neg4: face-connected solids can still pinch along an edge
FaceConnectedSuffices == (Mesh /\ AssertFaceConnectedSuffices /\ FaceConnected(F)) => Watertight(ltris)
\* the exposed-face count is the count of (voxel, direction) pairs with an empty or outside neighbour, counted directly
FaceCountRule == Mesh =>
    Cardinality(ExposedFaces(F)) =
        Cardinality({ pd \in Cells(shp) \X Dirs : pd[1] \in F /\ (Nb(pd[1], pd[2]) \notin Cells(shp) \/ Nb(pd[1], pd[2]) \notin F) })
=======================================================================
