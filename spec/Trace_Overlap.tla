------------------------ MODULE Trace_Overlap ------------------------
(* Validates executions of the REAL place_objects -> apply_params pipeline (/repo/src) against the
   definitions of Overlap.tla.  One record = one scene: device boxes and object boxes AS PLACED by
   fdtdx (grid slices read back from the placed objects), and for every source/detector
   calls[r] = observations after the r-th consecutive apply_params call (parameter patterns alternate):
     leaves : one triple << observed, fresh, pre >> of integer fingerprints per state array of the object
              observed = the object returned by apply_params
              fresh    = the same object after a fresh apply against ALL arrays returned by that call
                         (inv_permittivities, inv_permeabilities, dispersive_c1..c4, electric_conductivity)
              pre      = the same object after an apply against the pre-device arrays of place_objects
     nums   : (mode objects) << observed, fresh, pre >> of the effective index in units of 1e-8, compared
              within tol (the eigenmode solver is not bit-reproducible); their mode fields are not compared
     flagged: what Device.check_overlap answered for the placed objects (any device)
     snap   : (dipoles) 4 x the inverse permittivities the returned object holds, one integer per cell
   TLC computes the relation between the boxes, decides NeedsReapply, and evaluates the property's
   predicate "state equals fresh state" on the observed integers; for dipoles it also recomputes the
   expected material values from the box geometry (OverlapDefs!ExpectedSnap).                      *)
EXTENDS Integers, Sequences, FiniteSets, TLC, TLCExt, Json, IOUtils

D == INSTANCE OverlapDefs

Cases == JsonDeserialize(IOEnv.TRACE_FILE)
VARIABLES ci
Box(b) == << << b[1][1], b[1][2] >>, << b[2][1], b[2][2] >>, << b[3][1], b[3][2] >> >>
DevsOf(c) == [ i \in 1..Len(c.devs) |-> Box(c.devs[i]) ]

WellFormed(c) ==
    /\ Len(c.devs) >= 1 /\ \A i \in 1..Len(c.devs) : Len(c.devs[i]) = 3 /\ D!IsBox(Box(c.devs[i]), c.n)
    /\ Len(c.objs) >= 1
    /\ \A k \in 1..Len(c.objs) :
         LET o == c.objs[k] IN
         /\ Len(o.box) = 3 /\ D!IsBox(Box(o.box), c.n)
         /\ o.tol >= 0 /\ o.tol <= 10
         /\ Len(o.calls) >= 1
         /\ \A r \in 1..Len(o.calls) :
              LET q == o.calls[r] IN
              /\ \A j \in 1..Len(q.leaves) : Len(q.leaves[j]) = 3
              /\ \A j \in 1..Len(q.nums) : Len(q.nums[j]) = 3
              /\ q.has_snap => Len(q.snap) = D!BoxLen(Box(o.box))

Abs(x) == IF x < 0 THEN -x ELSE x
\* "state equals fresh state" after one apply_params call: exact arrays by fingerprint (they include every
\* array derived from inv_permittivities AND from the dispersion / conductivity arrays), solver outputs
\* (effective index, real and imaginary part) within tol
Same(q, tol) == /\ \A j \in 1..Len(q.leaves) : q.leaves[j][1] = q.leaves[j][2]
                /\ \A j \in 1..Len(q.nums) : Abs(q.nums[j][1] - q.nums[j][2]) <= tol
RelStr(o, c) == ToString(D!Rel3(Box(o.box), DevsOf(c)[1]))

\* verdict of one object of a scene after its r-th apply_params call (patterns alternate 0,1,0,...)
CallVerdict(o, c, r) ==
    LET B == Box(o.box)  Ds == DevsOf(c)  needs == D!NeedsReapply(B, Ds)  q == o.calls[r]
        where == "; call " \o ToString(r) \o "; relation " \o RelStr(o, c) IN
    IF needs /\ ~Same(q, o.tol)
      THEN "stale: object sharing a cell with a device does not hold the state of a fresh set-up against the returned arrays" \o where
    ELSE IF needs /\ q.has_snap /\ ~q.snap_exact
      THEN "model: sampled inverse permittivities are not multiples of 1/4"
    ELSE IF needs /\ q.has_snap /\ q.snap # D!ExpectedSnap(B, Ds, r)
      THEN "model: fresh set-up differs from the post-device material model" \o where
    ELSE IF needs /\ ~q.flagged
      THEN "flag: check_overlap is false for an intersecting object although its state is fresh"
    ELSE IF ~needs /\ ~Same(q, o.tol)
      THEN "unclaimed: object not sharing a cell with any device differs from a fresh set-up"
    ELSE "ok"

RECURSIVE FirstBadCall(_, _, _)
FirstBadCall(o, c, r) == IF r > Len(o.calls) THEN "ok"
                         ELSE LET v == CallVerdict(o, c, r) IN IF v # "ok" THEN v ELSE FirstBadCall(o, c, r + 1)
RECURSIVE FirstBad(_, _)
FirstBad(c, k) == IF k > Len(c.objs) THEN "ok"
                  ELSE LET v == FirstBadCall(c.objs[k], c, 1) IN IF v # "ok" THEN v ELSE FirstBad(c, k + 1)
Verdict(c) == IF c.skipped THEN "skipped: eigenmode solver did not converge, scene not observed"
              ELSE IF ~WellFormed(c) THEN "malformed: boxes, leaves or snapshot length" ELSE FirstBad(c, 1)

TInit == ci = 1 /\ TLCSet(1, << >>)
TNext == /\ ci <= Len(Cases)
         /\ TLCSet(1, Append(TLCGet(1), [ id |-> Cases[ci].id, v |-> Verdict(Cases[ci]) ]))
         /\ ci' = ci + 1
TSpec == TInit /\ [][TNext]_ci
Post == ndJsonSerialize(IOEnv.VERDICT_FILE, TLCGet(1))
=======================================================================
