------------------------ MODULE Trace_Overlap ------------------------
(* Validates executions of the REAL place_objects -> apply_params pipeline (/repo/src) against the
   definitions of Overlap.tla.  One record = one scene: device boxes and object boxes AS PLACED by
   fdtdx (grid slices read back from the placed objects), and for every source/detector
     leaves : one triple << observed, fresh, pre >> of integer fingerprints per state array of the object
              observed = the object returned by apply_params
              fresh    = the same object after a fresh apply against the arrays returned by apply_params
              pre      = the same object after an apply against the pre-device arrays of place_objects
     nums   : (mode objects) << observed, fresh, pre >> of the effective index in units of 1e-8, compared
              within tol (the eigenmode solver is not bit-reproducible); their mode fields are not compared
     flagged: what Device.check_overlap answered for the placed objects (any device)
     snap   : (dipoles) 4 x the inverse permittivities the returned object holds, one integer per cell
   TLC computes the relation between the boxes, decides NeedsReapply, and evaluates the property's
   predicate "state equals fresh state" on the observed integers; for dipoles it also recomputes the
   expected material values from the box geometry (OverlapDefs!ExpectedSnap).                      *)
EXTENDS Integers, Sequences, FiniteSets, TLC, TLCExt, Json, IOUtils

D == INSTANCE OverlapDefs

Cases == JsonDeserialize(IOEnv.TRACE_FILE)
VARIABLES ci
Box(b) == << << b[1][1], b[1][2] >>, << b[2][1], b[2][2] >>, << b[3][1], b[3][2] >> >>
DevsOf(c) == [ i \in 1..Len(c.devs) |-> Box(c.devs[i]) ]

WellFormed(c) ==
    /\ Len(c.devs) >= 1 /\ \A i \in 1..Len(c.devs) : Len(c.devs[i]) = 3 /\ D!IsBox(Box(c.devs[i]), c.n)
    /\ Len(c.objs) >= 1
    /\ \A k \in 1..Len(c.objs) :
         LET o == c.objs[k] IN
         /\ Len(o.box) = 3 /\ D!IsBox(Box(o.box), c.n)
         /\ \A j \in 1..Len(o.leaves) : Len(o.leaves[j]) = 3
         /\ \A j \in 1..Len(o.nums) : Len(o.nums[j]) = 3
         /\ o.tol >= 0 /\ o.tol <= 10
         /\ o.has_snap => Len(o.snap) = D!BoxLen(Box(o.box))

Abs(x) == IF x < 0 THEN -x ELSE x
\* "state equals fresh state": exact arrays by fingerprint, solver outputs (effective index) within o.tol
Same(o)  == /\ \A j \in 1..Len(o.leaves) : o.leaves[j][1] = o.leaves[j][2]
            /\ \A j \in 1..Len(o.nums) : Abs(o.nums[j][1] - o.nums[j][2]) <= o.tol
RelStr(o, c) == ToString(D!Rel3(Box(o.box), DevsOf(c)[1]))

\* verdict of one object of a scene
ObjVerdict(o, c) ==
    LET B == Box(o.box)  Ds == DevsOf(c)  needs == D!NeedsReapply(B, Ds) IN
    IF needs /\ ~Same(o)
      THEN "stale: object sharing a cell with a device does not hold the state of a fresh set-up; relation " \o RelStr(o, c)
    ELSE IF needs /\ o.has_snap /\ ~o.snap_exact
      THEN "model: sampled inverse permittivities are not multiples of 1/4"
    ELSE IF needs /\ o.has_snap /\ o.snap # D!ExpectedSnap(B, Ds)
      THEN "model: fresh set-up differs from the post-device material model; relation " \o RelStr(o, c)
    ELSE IF needs /\ ~o.flagged
      THEN "flag: check_overlap is false for an intersecting object although its state is fresh"
    ELSE IF ~needs /\ ~Same(o)
      THEN "unclaimed: object not sharing a cell with any device differs from a fresh set-up"
    ELSE "ok"

RECURSIVE FirstBad(_, _)
FirstBad(c, k) == IF k > Len(c.objs) THEN "ok"
                  ELSE LET v == ObjVerdict(c.objs[k], c) IN IF v # "ok" THEN v ELSE FirstBad(c, k + 1)
Verdict(c) == IF ~WellFormed(c) THEN "malformed: boxes, leaves or snapshot length" ELSE FirstBad(c, 1)

TInit == ci = 1 /\ TLCSet(1, << >>)
TNext == /\ ci <= Len(Cases)
         /\ TLCSet(1, Append(TLCGet(1), [ id |-> Cases[ci].id, v |-> Verdict(Cases[ci]) ]))
         /\ ci' = ci + 1
TSpec == TInit /\ [][TNext]_ci
Post == ndJsonSerialize(IOEnv.VERDICT_FILE, TLCGet(1))
=======================================================================
