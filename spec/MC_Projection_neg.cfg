SPECIFICATION Spec
CONSTANTS Variant = "no_clip"
INVARIANT TypeOK
INVARIANT Range
INVARIANT Monotone
INVARIANT Fixes01
INVARIANT ClipAt0
INVARIANT StepAtInf
CHECK_DEADLOCK FALSE
