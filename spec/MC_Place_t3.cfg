SPECIFICATION Spec
CONSTANTS CatFile = "Place_catalogue_q.json"  MaxCons = 3  MaxSpec = 1  EarlyBreak = FALSE  SkipKnown = FALSE
INVARIANT Confluence
INVARIANT Soundness
INVARIANT PassItemsCommute
PROPERTY WriteOnce
PROPERTY FailSticky
CHECK_DEADLOCK FALSE
