------------------------------ MODULE GridEquiv ------------------------------
(* C38: equivalent grid descriptions give identical simulations.

   Product of three runs of the same 1-D periodic lattice scene under the grid descriptions
     "uniform" (UniformGrid policy: raw differences),
     "rect"    (explicit RectilinearGrid with equal cell widths d),
     "quasi"   (QuasiUniformGrid with equal per-axis spacing d, resolved to a RectilinearGrid),
   where the rectilinear descriptions go through the metric scale of GridEquivDefs.
   Invariants: the metric scales are exactly 1 (ScaleIsOne), hence the step relations coincide and all three
   runs stay equal (AllEqual); scaled differences stay integral (no rounding hidden in the model).
   They also resolve to the same edge arrays (EdgesAgree, PlacementAgrees: origin centred per axis from that
   axis' own cell count).
   Placement through a centre relative to the domain centre is independent of where a description sits in space
   (CentrePlacementAgrees).
   Negative instances: reference spacing without the division by the Courant number; z origin of the uniform
   policy computed from the y cell count; domain-centre term added only for non-uniform grids.                       *)
EXTENDS GridEquivDefs

CONSTANTS MaxN, MaxD, MaxT, Variant, Volumes   \* Volumes: set of 3-D shapes for the edge/origin rule
Descs == {"uniform", "rect", "quasi"}
\* domain centres per description (units of d): all on the origin / each somewhere else
Centres == { [ g \in Descs |-> 0 ], [ g \in Descs |-> IF g = "uniform" THEN 0 ELSE IF g = "rect" THEN 3 ELSE -4 ] }
VARIABLES n, d, shp, cen, ini, E, H, pc, t
vars == << n, d, shp, cen, ini, E, H, pc, t >>

W == EqualWidths(n, d)
Ref == RefSpacing(d, Variant)
Mat(k) == [ i \in 1..k |-> 1 + (i % 2) ]
F0(k, i0, f, ft) == [ i \in 1..k |-> IF i0 = 0 THEN i + (IF ft = "H" THEN 2 ELSE 0) ELSE IF f = ft /\ i = i0 THEN 1 ELSE 0 ]

Init == /\ n \in 2..MaxN /\ d \in 1..MaxD /\ shp \in Volumes /\ cen \in Centres
        /\ ini \in { << "dense", 0 >> } \cup ({"E", "H"} \X (1..n))
        /\ E = [ g \in Descs |-> F0(n, ini[2], ini[1], "E") ]
        /\ H = [ g \in Descs |-> F0(n, ini[2], ini[1], "H") ]
        /\ pc = "E" /\ t = 0
UpdE == /\ pc = "E" /\ t < MaxT
        /\ E' = [ g \in Descs |-> StepE1(E[g], H[g], Mat(n), g, W, Ref) ]
        /\ pc' = "H" /\ UNCHANGED << n, d, shp, cen, ini, H, t >>
UpdH == /\ pc = "H"
        /\ H' = [ g \in Descs |-> StepH1(E[g], H[g], g, W, Ref) ]
        /\ pc' = "E" /\ t' = t + 1 /\ UNCHANGED << n, d, shp, cen, ini, E >>
Next == UpdE \/ UpdH
Spec == Init /\ [][Next]_vars

TypeOK == pc \in {"E", "H"} /\ t \in 0..MaxT /\ \A g \in Descs : Len(E[g]) = n /\ Len(H[g]) = n
\* C38
AllEqual == \A g \in Descs : E[g] = E["uniform"] /\ H[g] = H["uniform"]
\* the three descriptions resolve to the same edge arrays on every axis (origin from that axis' own cell count), so an
\* object pinned at a physical coordinate lands on the same cell in all of them
EdgesAgree == \A g \in Descs : \A a \in 1..3 : Edges2(g, shp, a, d, Variant) = Edges2("rect", shp, a, d, "ok")
PlacementAgrees ==
    \A g \in Descs : \A a \in 1..3 : \A i \in 0..shp[a] :
        NearestEdge(Edges2(g, shp, a, d, Variant), shp[a], Edges2("rect", shp, a, d, "ok")[i]) = i
\* every description may be centred somewhere else (cen[g], in units of d); an object requested through its centre
\* RELATIVE to the domain centre lands on the intended cells in all of them
CentrePlacementAgrees ==
    \A g \in Descs : \A a \in 1..3 : \A size \in 1..shp[a] : \A lo \in 0..(shp[a] - size) :
        PlaceByCentre(ShiftedEdges2(g, shp, a, d, 2 * d * cen[g], "ok"), shp[a], size, RelCentre2(lo, size, shp[a], d), Variant) = lo
ScaleIsOne == \A i \in 1..n : IsOne(ScaleFwd(W, Ref)[i]) /\ IsOne(ScaleBwd(W, Ref)[i])
VolumesQ == { <<2,4,6>>, <<4,2,2>> }
VolumesT == { <<2,4,6>>, <<4,2,2>>, <<6,8,10>>, <<2,2,2>>, <<4,6,2>> }
=============================================================================
