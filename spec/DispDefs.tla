------------------------------ MODULE DispDefs ------------------------------
(* Pure definitions of fdtdx's dispersive-pole algebra (src/fdtdx/dispersion.py, materials.py) in EXACT
   rational arithmetic, shared by Disp.tla (state machine, model-checked), Trace_Disp.tla (numbers observed
   from the real coefficient functions), Ade.tla / Trace_Ade.tla and Trace_Bounded.tla (C36).

   Everything is expressed in units of the time step:  w = omega_0*dt, g = gamma*dt, x = omega*dt,
   a = (E coupling)*dt^2, b = (dE/dt coupling)*dt.

   A declared pole p is a record [ptype, v] with v a sequence of rationals <<n, d>>:
     "lorentz"  v = << w, g, de >>            chi = de*w^2 / (w^2 - x^2 - i g x)
     "drude"    v = << wp, g >>               chi = -wp^2 / (x^2 + i g x)
     "cp"       v = << A, Om, Ga, cs, sn >>   chi = A*Om*[ e^{i phi}/(Om - x - i Ga) + e^{-i phi}/(Om + x + i Ga) ]
                                              with e^{i phi} = cs + i sn   (critical-point / modified Lorentz)
     "ccpr"     v = << qr, qi, rr, ri >>      chi = r/(-i x - q) + conj(r)/(-i x - conj(q))
   Unified(p) is the (w2, g, a, b) quadruple of the common second-order form
       chi = (a - i x b) / (w2 - x^2 - i g x)
   Coef(u, variant) is the documented recurrence-coefficient map (compute_pole_coefficients_per_axis / _tensor),
   Inverse(c) the documented inverse map (susceptibility_from_coefficients).                            *)
EXTENDS Integers, Sequences, FiniteSets, TLC

Abs(x) == IF x < 0 THEN 0 - x ELSE x
RECURSIVE GCD(_, _)
GCD(a, b) == IF b = 0 THEN a ELSE GCD(b, a % b)
LCM(a, b) == (a \div GCD(a, b)) * b

\* ---------------------------------------------------------------- rationals <<n, d>>, d > 0, lowest terms
Norm(n, d) == IF n = 0 THEN << 0, 1 >>
              ELSE LET k == GCD(Abs(n), Abs(d)) IN
                   IF d < 0 THEN << (0 - n) \div k, (0 - d) \div k >> ELSE << n \div k, d \div k >>
Rn(x)      == Norm(x[1], x[2])                      \* normalise a pair read from JSON
RI(k)      == << k, 1 >>
RZ         == << 0, 1 >>
RAdd(x, y) == LET k == GCD(x[2], y[2]) IN Norm(x[1] * (y[2] \div k) + y[1] * (x[2] \div k), (x[2] \div k) * y[2])
RSub(x, y) == LET k == GCD(x[2], y[2]) IN Norm(x[1] * (y[2] \div k) - y[1] * (x[2] \div k), (x[2] \div k) * y[2])
RMul(x, y) == LET a == Norm(x[1], y[2])  b == Norm(y[1], x[2]) IN Norm(a[1] * b[1], a[2] * b[2])
RDiv(x, y) == RMul(x, Norm(y[2], y[1]))             \* y # 0
RNeg(x)    == << 0 - x[1], x[2] >>
RSq(x)     == << x[1] * x[1], x[2] * x[2] >>
RHalf(x)   == Norm(x[1], 2 * x[2])
RLe(x, y)  == LET k == GCD(x[2], y[2]) IN x[1] * (y[2] \div k) <= y[1] * (x[2] \div k)
RLt(x, y)  == LET k == GCD(x[2], y[2]) IN x[1] * (y[2] \div k) < y[1] * (x[2] \div k)
RAbs(x)    == << Abs(x[1]), x[2] >>
RIsZ(x)    == x[1] = 0

\* ---------------------------------------------------------------- complex rationals [re, im]
Cx(r, i)   == [ re |-> r, im |-> i ]
CZ         == Cx(RZ, RZ)
CAdd(p, q) == Cx(RAdd(p.re, q.re), RAdd(p.im, q.im))
CMul(p, q) == Cx(RSub(RMul(p.re, q.re), RMul(p.im, q.im)), RAdd(RMul(p.re, q.im), RMul(p.im, q.re)))
CConj(p)   == Cx(p.re, RNeg(p.im))
CScale(k, p) == Cx(RMul(k, p.re), RMul(k, p.im))
CIsZ(p)    == RIsZ(p.re) /\ RIsZ(p.im)
CDiv(p, q) == LET m == RAdd(RSq(q.re), RSq(q.im))  t == CMul(p, CConj(q)) IN Cx(RDiv(t.re, m), RDiv(t.im, m))

\* ---------------------------------------------------------------- declared model -> unified quadruple
UZero == [ w2 |-> RZ, g |-> RZ, a |-> RZ, b |-> RZ ]
UCcpr(qr, qi, rr, ri) ==
    [ w2 |-> RAdd(RSq(qr), RSq(qi)),                       \* |q|^2
      g  |-> RMul(RI(-2), qr),                             \* -2 Re q
      a  |-> RMul(RI(-2), RAdd(RMul(rr, qr), RMul(ri, qi))), \* -2 Re(r conj q)
      b  |-> RMul(RI(2), rr) ]                             \*  2 Re r
Unified(p) ==
    LET v == [ k \in 1..Len(p.v) |-> Rn(p.v[k]) ] IN
    CASE p.ptype = "lorentz" -> [ w2 |-> RSq(v[1]), g |-> v[2], a |-> RMul(v[3], RSq(v[1])), b |-> RZ ]
      [] p.ptype = "drude"   -> [ w2 |-> RZ, g |-> v[2], a |-> RSq(v[1]), b |-> RZ ]
      [] p.ptype = "cp"      -> \* q = -Ga - i Om,  r = i A Om e^{i phi} = A Om (-sn + i cs)
                                UCcpr(RNeg(v[3]), RNeg(v[2]), RNeg(RMul(RMul(v[1], v[2]), v[5])), RMul(RMul(v[1], v[2]), v[4]))
      [] p.ptype = "ccpr"    -> UCcpr(v[1], v[2], v[3], v[4])

\* the property's preconditions: omega_0*dt < 2, damping >= 0
Precond(u) == RLt(u.w2, RI(4)) /\ RLe(RZ, u.g)
Couples(u) == ~RIsZ(u.a) \/ ~RIsZ(u.b)
\* placement-time acceptance of a pole axis (compute_pole_coefficients_per_axis / _tensor, the variant placement uses):
\* a ValueError is raised iff the axis is ACTIVE (it couples: a # 0 OR b # 0) and omega_0*dt >= 2; an axis that couples to
\* nothing is exempt.  guard = "and" is the deliberately wrong rule (negative instance): it never fires for Lorentz/Drude.
AxisActive(u, guard) == IF guard = "and" THEN ~RIsZ(u.a) /\ ~RIsZ(u.b) ELSE ~RIsZ(u.a) \/ ~RIsZ(u.b)
Accepts(u, guard) == ~(AxisActive(u, guard) /\ ~RLt(u.w2, RI(4)))

\* ---------------------------------------------------------------- recurrence coefficients (documented map)
\*   D = 1 + g/2,  c1 = (2 - w2)/D,  c2 = -(1 - g/2)/D,  c3 = (a - b)/D,  c4 = b/D
\* variants are deliberately wrong maps (negative instances)
Coef(u, variant) ==
    LET D  == IF variant = "half_dropped" THEN RAdd(RI(1), u.g) ELSE RAdd(RI(1), RHalf(u.g))
        n2 == RSub(RI(1), RHalf(u.g))
    IN [ c1 |-> RDiv(RSub(RI(2), u.w2), D),
         c2 |-> IF variant = "c2_sign" THEN RDiv(n2, D) ELSE RNeg(RDiv(n2, D)),
         c3 |-> IF variant = "c3_plus_b" THEN RDiv(RAdd(u.a, u.b), D) ELSE RDiv(RSub(u.a, u.b), D),
         c4 |-> RDiv(u.b, D) ]
CZero == [ c1 |-> RZ, c2 |-> RZ, c3 |-> RZ, c4 |-> RZ ]      \* a zero-padded pole slot

\* ---------------------------------------------------------------- inverse map (documented)
\*   g = 2(1 + c2)/(1 - c2),  D = 1 + g/2,  w2 = 2 - c1 D,  a = (c3 + c4) D,  b = c4 D ; an all-zero slot is "no pole"
Masked(c) == RIsZ(c.c1) /\ RIsZ(c.c3) /\ RIsZ(c.c4)
Inverse(c) ==
    IF Masked(c) THEN UZero
    ELSE LET om == RSub(RI(1), c.c2)
             g  == RDiv(RMul(RI(2), RAdd(RI(1), c.c2)), IF RIsZ(om) THEN RI(1) ELSE om)
             D  == RAdd(RI(1), RHalf(g))
         IN [ w2 |-> RSub(RI(2), RMul(c.c1, D)), g |-> g, a |-> RMul(RAdd(c.c3, c.c4), D), b |-> RMul(c.c4, D) ]

\* ---------------------------------------------------------------- susceptibilities at x = omega*dt
UDen(u, x) == Cx(RSub(u.w2, RSq(x)), RNeg(RMul(u.g, x)))
UNum(u, x) == Cx(u.a, RNeg(RMul(x, u.b)))
ChiU(u, x) == IF CIsZ(UNum(u, x)) THEN CZ ELSE CDiv(UNum(u, x), UDen(u, x))
DenOK(u, x) == ~CIsZ(UDen(u, x))

\* the DECLARED physical formula of each pole kind, as numerator / denominator (complex rationals)
DeclNumDen(p, x) ==
    LET v == [ k \in 1..Len(p.v) |-> Rn(p.v[k]) ] IN
    CASE p.ptype = "lorentz" -> << Cx(RMul(v[3], RSq(v[1])), RZ), Cx(RSub(RSq(v[1]), RSq(x)), RNeg(RMul(v[2], x))) >>
      [] p.ptype = "drude"   -> << Cx(RNeg(RSq(v[1])), RZ), Cx(RSq(x), RMul(v[2], x)) >>
      [] p.ptype = "cp"      -> LET e  == Cx(v[4], v[5])
                                    d1 == Cx(RSub(v[2], x), RNeg(v[3]))        \* Om - x - i Ga
                                    d2 == Cx(RAdd(v[2], x), v[3])              \* Om + x + i Ga
                                    am == RMul(v[1], v[2])
                                IN << CScale(am, CAdd(CMul(e, d2), CMul(CConj(e), d1))), CMul(d1, d2) >>
      [] p.ptype = "ccpr"    -> LET q  == Cx(v[1], v[2])  r == Cx(v[3], v[4])
                                    d1 == Cx(RNeg(q.re), RSub(RNeg(x), q.im))              \* -i x - q
                                    d2 == Cx(RNeg(q.re), RAdd(RNeg(x), q.im))              \* -i x - conj q
                                IN << CAdd(CMul(r, d2), CMul(CConj(r), d1)), CMul(d1, d2) >>
ChiDecl(p, x) == LET nd == DeclNumDen(p, x) IN IF CIsZ(nd[1]) THEN CZ ELSE CDiv(nd[1], nd[2])
DeclDenOK(p, x) == ~CIsZ(DeclNumDen(p, x)[2])

\* ---------------------------------------------------------------- Jury conditions for z^2 - c1 z - c2
\* no root outside the closed unit disc  <=>  |c2| <= 1  /\  |c1| <= 1 - c2
Jury(c)       == RLe(RAbs(c.c2), RI(1)) /\ RLe(RAbs(c.c1), RSub(RI(1), c.c2))
StrictJury(c) == RLt(RAbs(c.c2), RI(1)) /\ RLt(RAbs(c.c1), RSub(RI(1), c.c2))
\* the same statement on the roots themselves where they are rational expressions:
\*   complex pair (c1^2 + 4 c2 < 0): |z|^2 = -c2 ;  real roots: p(1) >= 0, p(-1) >= 0 and |z1 z2| = |c2| <= 1
Disc(c) == RAdd(RSq(c.c1), RMul(RI(4), c.c2))
RootsInDisc(c) ==
    IF RLt(Disc(c), RZ) THEN RLe(RNeg(c.c2), RI(1))
    ELSE /\ RLe(RZ, RSub(RSub(RI(1), c.c1), c.c2))        \* p(1)  = 1 - c1 - c2
         /\ RLe(RZ, RSub(RAdd(RI(1), c.c1), c.c2))        \* p(-1) = 1 + c1 - c2
         /\ RLe(RAbs(c.c2), RI(1))
         /\ RLe(RAbs(c.c1), RI(2))                        \* |z1 + z2| <= 2

\* ---------------------------------------------------------------- coupled field/polarisation stability bound (C36)
\* Uniform medium, explicit ADE of update_E:  eps (E'' ) + sum_p (P_p'') = -4 nu^2 E  with second differences and
\* nu^2 <= cf^2 (courant_factor^2, reached by the grid's Nyquist mode).  The root z = -1 of the coupled
\* characteristic equation  (z - 2 + 1/z)(eps + sum_p c3_p/(z - c1_p - c2_p/z)) = -4 nu^2  exists for
\* nu^2 = eps - sum_p c3_p/(1 + c1_p - c2_p); above it a root has left the unit circle through z = -1.
\* NyqLoad(c) = c3/(1 + c1 - c2)  ( = a/(4 - w2) for Lorentz/Drude poles )
NyqLoad(c) == IF Masked(c) \/ RIsZ(c.c3) THEN RZ ELSE RDiv(c.c3, RAdd(RI(1), RSub(c.c1, c.c2)))
RECURSIVE SumLoad(_, _)
SumLoad(cs, k) == IF k = 0 THEN RZ ELSE RAdd(SumLoad(cs, k - 1), NyqLoad(cs[k]))
\* cf2 = courant_factor^2, eps = background permittivity, cs = sequence of coefficient records of the cell's poles
CoupledStable(cf2, eps, cs) == RLe(cf2, RSub(eps, SumLoad(cs, Len(cs))))

\* ---------------------------------------------------------------- scaled observations (trace specs)
\* A float64 value v observed from the code is sent as the integer n = round(v * 10^12) split into three limbs
\* <<l2, l1, l0>>, n = l2*10^8 + l1*10^4 + l0 (l1, l0 in -9999..9999 with the sign of n; l2 unbounded but small enough).
Base == 10000
\* |R2*Base^2 + R1*Base + R0| <= tol   for |Ri| < 2^31 - Base, tol < 10^9, evaluated without overflow
AbsLe3(R2, R1, R0, tol) ==
    LET q0 == R0 \div Base   r0 == R0 % Base
        s1 == R1 + q0
        q1 == s1 \div Base   r1 == s1 % Base
        s2 == R2 + q1
        lim == (tol \div (Base * Base)) + 2
    IN  /\ s2 <= lim /\ s2 >= 0 - lim
        /\ LET val == (s2 * Base + r1) * Base + r0 IN val <= tol /\ val >= 0 - tol
IsL3(L) == Len(L) = 3 /\ Abs(L[2]) < Base /\ Abs(L[3]) < Base /\ Abs(L[1]) < 20000000
ZeroL3(L) == L[1] = 0 /\ L[2] = 0 /\ L[3] = 0
\* observed value L is the rational r up to tol units of 10^-12 (absolute):  | L*d - n*10^12 | <= tol*d
NearRat(L, r, tol) == AbsLe3(L[1] * r[2] - r[1] * Base, L[2] * r[2], L[3] * r[2], tol * r[2])
\* L1 <= L2 + tol  (limb triples)
LeL3(L1, L2, tol) == LET D2 == L1[1] - L2[1]  D1 == L1[2] - L2[2]  D0 == L1[3] - L2[3]
                     IN  D2 < 0 - 3 \/ (D2 <= 3 /\ (D2 * Base + D1) * Base + D0 <= tol)
AddL3(L1, L2) == << L1[1] + L2[1], L1[2] + L2[2], L1[3] + L2[3] >>
SubL3(L1, L2) == << L1[1] - L2[1], L1[2] - L2[2], L1[3] - L2[3] >>
NegL3(L) == << 0 - L[1], 0 - L[2], 0 - L[3] >>
AbsL3(L) == IF L[1] < 0 \/ (L[1] = 0 /\ (L[2] < 0 \/ (L[2] = 0 /\ L[3] < 0))) THEN NegL3(L) ELSE L

\* observed complex value (Lr + i Li) against the exact quotient num/den of complex rationals, cross-multiplied:
\*   | (Lr + i Li) * den' - num' * 10^12 |_component <= rel * (|num'_re| + |num'_im|) + (|den'_re| + |den'_im|)
\* where num', den' are num, den times the lcm m of their four denominators (integers)
CInt(p, m) == << p.re[1] * (m \div p.re[2]), p.im[1] * (m \div p.im[2]) >>
NearQuot(Lr, Li, num, den, rel) ==
    LET m  == LCM(LCM(num.re[2], num.im[2]), LCM(den.re[2], den.im[2]))
        N  == CInt(num, m)
        D  == CInt(den, m)
        tl == rel * (Abs(N[1]) + Abs(N[2])) + 2 * (Abs(D[1]) + Abs(D[2]))
    IN  /\ AbsLe3(Lr[1] * D[1] - Li[1] * D[2] - N[1] * Base, Lr[2] * D[1] - Li[2] * D[2], Lr[3] * D[1] - Li[3] * D[2], tl)
        /\ AbsLe3(Lr[1] * D[2] + Li[1] * D[1] - N[2] * Base, Lr[2] * D[2] + Li[2] * D[1], Lr[3] * D[2] + Li[3] * D[1], tl)
=============================================================================
