--------------------------- MODULE PlaceDefs ---------------------------
(* Pure definitions of the object-placement constraint solver of fdtdx
   (fdtd/initialization.py: resolve_object_constraints / _apply_constraints_iteratively and helpers;
   objects/object.py constraint classes; core/grid.py snapping via GridDefs), shared by Place.tla (state
   machines) and Trace_Place.tla (conformance).

   A system  sys = [ed, objs, cons, fl]:
     fl       [eb, sk]: which of the two known defects of the code are modelled (TRUE = code as it is, FALSE = intended design):
              eb = leave the loop as soon as all slots are filled without re-checking; sk = skip static positions of resolved axes
     ed[a]    edge coordinates of axis a in quarter units (GridDefs)
     objs[i]  [gs, rs, rp]: partial_grid_shape / partial_real_shape / partial_real_position per axis (U = not given);
              object 1 is the simulation volume
     cons[j]  records with t \in {"gc","rc","pos","size","ext"} (fields as in harness/place_sys.py)
   A solver state  S = [sh, sl, fail]:
     sh[o][a]       grid shape or U           (set once; later writers only check consistency)
     sl[o][a][s]    edge index (s=1 lower, s=2 upper) or U      (set once)
     fail           some sub-step recorded an error / raised.  Errors are never cleared by the code, so the
                    final success flag is "no error ever" and `fail` is absorbing (what happens after the first
                    error cannot change the outcome "placement failed").
   Every sub-step of the code is a function S -> S here (…Item for one (object, axis) of a pass, Con for one
   constraint with its axes in order, ExtendAll for _extend_to_inf_if_possible, Finalize for the closing checks). *)
EXTENDS Integers, Sequences, FiniteSets
G == INSTANCE GridDefs

U == -1000
Objs(sys) == 1..Len(sys.objs)
Axes(sys) == 1..Len(sys.ed)
NCon(sys) == Len(sys.cons)
Vol == 1
Ed(sys, a) == sys.ed[a]
NC(sys, a) == G!NCells(sys.ed[a])
Uniform(sys) == \A a \in Axes(sys) : \A i \in 0..(NC(sys, a) - 1) : G!WidthQ(sys.ed[a], i) = G!WidthQ(sys.ed[1], 0)
Spacing(sys) == G!WidthQ(sys.ed[1], 0)            \* config.uniform_spacing() in quarter units (uniform grids only)
IdxOK(sys, a, i) == i \in 0..NC(sys, a)

\* ---------- state helpers ----------
SetSh(S, o, a, v)    == [ S EXCEPT !.sh[o][a] = v ]
SetSl(S, o, a, s, v) == [ S EXCEPT !.sl[o][a][s] = v ]
Fail(S) == [ S EXCEPT !.fail = TRUE ]
\* write-once slot: set if unknown, otherwise it must agree (else an error is recorded / an exception raised)
PutSl(S, o, a, s, v) == IF S.fail THEN S ELSE IF S.sl[o][a][s] = U THEN SetSl(S, o, a, s, v) ELSE IF S.sl[o][a][s] = v THEN S ELSE Fail(S)
PutSh(S, o, a, v)    == IF S.fail THEN S ELSE IF S.sh[o][a] = U THEN SetSh(S, o, a, v) ELSE IF S.sh[o][a] = v THEN S ELSE Fail(S)
Known(S, o, a) == S.sl[o][a][1] # U /\ S.sl[o][a][2] # U

\* ---------- snapping used by the solver ----------
\* _real_length_to_grid_size: uniform grids snap the end coordinate to the nearest edge; non-uniform grids use an exact edge
\* if the length ends on one, otherwise the next edge above (clamped); negative lengths raise.  -1 = raise.
LenToSize(sys, a, L) ==
    LET e == Ed(sys, a)  c == G!E(e, 0) + L IN
    IF L < 0 THEN -1
    ELSE IF Uniform(sys) THEN G!NearestAlg(e, c)
    ELSE LET i == G!NearestAlg(e, c) IN
         IF G!E(e, i) = c THEN i ELSE (IF G!UpperAlg(e, c) > NC(sys, a) THEN NC(sys, a) ELSE G!UpperAlg(e, c))
\* property side of the same snapping ("documented nearest-edge snapping"): any nearest edge / the covering edge
IsLenSize(sys, a, L, n) ==
    LET e == Ed(sys, a)  c == G!E(e, 0) + L IN
    /\ L >= 0
    /\ IF Uniform(sys) THEN G!IsNearest(e, c, n)
       ELSE \/ (n \in G!Idx(e) /\ G!E(e, n) = c)
            \/ (~(\E i \in G!Idx(e) : G!E(e, i) = c) /\ n = (IF G!UpperAlg(e, c) > NC(sys, a) THEN NC(sys, a) ELSE G!UpperAlg(e, c)))
\* bounds_for_center with a doubled centre coordinate c2 (first minimiser)
CentreLo2(e, size, c2) ==
    G!MinOf({ lo \in G!Lowers(e, size) : \A l2 \in G!Lowers(e, size) :
                G!Abs(G!E(e, lo) + G!E(e, lo + size) - c2) <= G!Abs(G!E(e, l2) + G!E(e, l2 + size) - c2) })
DomainCentre2(e) == G!E(e, 0) + G!E(e, G!NCells(e))

\* ---------- initial state: static shapes, volume lower corner, static positions ----------
StaticShape(sys, o, a) ==
    LET ob == sys.objs[o] IN
    IF ob.gs[a] # U THEN ob.gs[a] ELSE IF ob.rs[a] # U THEN LenToSize(sys, a, ob.rs[a]) ELSE U
\* one (object, axis) of _resolve_static_positions_*: needs the size; refuses sizes that do not fit (ValueError, not caught)
PosItem(sys, S, o, a) ==
    LET rp == sys.objs[o].rp[a]  size == S.sh[o][a]  e == Ed(sys, a) IN
    \* sys.fl.sk = TRUE is the code as it is: an axis whose two bounds are already set is skipped WITHOUT validating the position
    IF S.fail \/ rp = U \/ (sys.fl.sk /\ Known(S, o, a)) \/ size = U THEN S
    ELSE IF ~G!Fits(e, size) THEN Fail(S)
    ELSE LET lo == CentreLo2(e, size, 2 * rp + DomainCentre2(e)) IN PutSl(PutSl(S, o, a, 1, lo), o, a, 2, lo + size)
\* ---------- the three passes, one (object, axis) item each ----------
SfsItem(sys, S, o, a) ==          \* _update_grid_slices_from_shapes
    LET s == S.sh[o][a]  b0 == S.sl[o][a][1]  b1 == S.sl[o][a][2] IN
    IF S.fail \/ s = U \/ (b0 = U /\ b1 = U) THEN S
    ELSE IF b0 # U /\ b1 # U THEN (IF s # b1 - b0 THEN Fail(S) ELSE S)
    ELSE IF b0 # U THEN SetSl(S, o, a, 2, b0 + s)
    ELSE SetSl(S, o, a, 1, b1 - s)
ShsItem(sys, S, o, a) ==          \* _update_grid_shapes_from_slices
    LET s == S.sh[o][a]  b0 == S.sl[o][a][1]  b1 == S.sl[o][a][2] IN
    IF S.fail \/ b0 = U \/ b1 = U THEN S
    ELSE IF s = U THEN SetSh(S, o, a, b1 - b0)
    ELSE IF s # b1 - b0 THEN Fail(S) ELSE S

Item(kind, sys, S, o, a) == IF kind = "pos" THEN PosItem(sys, S, o, a) ELSE IF kind = "sfs" THEN SfsItem(sys, S, o, a) ELSE ShsItem(sys, S, o, a)
RECURSIVE FoldOA(_, _, _, _)
\* one whole pass: the item over all (object, axis) pairs, object-major as the code's loops (items of a pass touch disjoint slots)
FoldOA(kind, sys, S, k) ==
    IF k = 0 THEN S
    ELSE LET na == Len(sys.ed)  o == ((k - 1) \div na) + 1  a == ((k - 1) % na) + 1
         IN Item(kind, sys, FoldOA(kind, sys, S, k - 1), o, a)
NPairs(sys) == Len(sys.objs) * Len(sys.ed)
InitS(sys) ==
    LET sh0 == [ o \in Objs(sys) |-> [ a \in Axes(sys) |-> StaticShape(sys, o, a) ] ]
        sl0 == [ o \in Objs(sys) |-> [ a \in Axes(sys) |-> IF o = Vol THEN << 0, U >> ELSE << U, U >> ] ]
        bad == \E o \in Objs(sys), a \in Axes(sys) : sh0[o][a] = -1         \* negative partial_real_shape raises
        S0  == [ sh |-> sh0, sl |-> sl0, fail |-> bad ]
    IN FoldOA("pos", sys, S0, NPairs(sys))


\* ---------- constraints ----------
GcBody(sys, S, c, i) == PutSl(S, c.o, c.ax[i], c.sd[i], c.co[i])
RcBody(sys, S, c, i) == PutSl(S, c.o, c.ax[i], c.sd[i], G!NearestAlg(Ed(sys, c.ax[i]), c.co[i]))
\* anchor coordinate of an object's interval (indices outside the edge array make the code raise or wrap; the object is
\* rejected by the closing bounds check anyway, so this is modelled as an error)
PosBody(sys, S, c, i) ==
    LET a == c.ax[i]  e == Ed(sys, a)  size == S.sh[c.o][a] IN
    IF ~Uniform(sys) /\ c.gm[i] # 0 THEN Fail(S)
    ELSE IF ~Known(S, c.p, a) \/ size = U THEN S
    ELSE IF ~IdxOK(sys, a, S.sl[c.p][a][1]) \/ ~IdxOK(sys, a, S.sl[c.p][a][2]) THEN Fail(S)
    ELSE LET anchor == G!AnchorQ(e, S.sl[c.p][a][1], S.sl[c.p][a][2], c.kp[i]) + c.m[i] + (IF c.gm[i] # 0 THEN c.gm[i] * Spacing(sys) ELSE 0) IN
         IF ~G!Fits(e, size) THEN Fail(S)
         ELSE LET lo == G!AnchorAlg(e, size, c.ko[i], anchor) IN PutSl(PutSl(S, c.o, a, 1, lo), c.o, a, 2, lo + size)
SizeTarget(sys, S, c, i) ==     \* target length in quarter units (proportion is pr/4; extents are multiples of 4)
    LET oa == c.oax[i]  e == Ed(sys, oa) IN
    ((G!ExtentQ(e, S.sl[c.p][oa][1], S.sl[c.p][oa][2]) \div 4) * c.pr[i]) + c.off[i] + (IF c.goff[i] # 0 THEN c.goff[i] * Spacing(sys) ELSE 0)
SizeBody(sys, S, c, i) ==
    LET a == c.ax[i]  oa == c.oax[i] IN
    IF ~Uniform(sys) /\ c.goff[i] # 0 THEN Fail(S)
    ELSE IF S.sh[c.p][oa] = U \/ ~Known(S, c.p, oa) THEN S
    ELSE IF ~IdxOK(sys, oa, S.sl[c.p][oa][1]) \/ ~IdxOK(sys, oa, S.sl[c.p][oa][2]) THEN Fail(S)
    ELSE LET n == LenToSize(sys, a, SizeTarget(sys, S, c, i)) IN IF n = -1 THEN Fail(S) ELSE PutSh(S, c.o, a, n)
ExtAnchorQ(sys, S, c) ==
    G!AnchorQ(Ed(sys, c.a), S.sl[c.p][c.a][1], S.sl[c.p][c.a][2], c.kp) + c.off + (IF c.goff # 0 THEN c.goff * Spacing(sys) ELSE 0)
ExtCon(sys, S, c) ==
    IF ~Uniform(sys) /\ c.goff # 0 THEN Fail(S)
    ELSE IF c.p # 0 THEN
         (IF ~Known(S, c.p, c.a) THEN S
          ELSE IF ~IdxOK(sys, c.a, S.sl[c.p][c.a][1]) \/ ~IdxOK(sys, c.a, S.sl[c.p][c.a][2]) THEN Fail(S)
          ELSE PutSl(S, c.o, c.a, c.d, G!NearestAlg(Ed(sys, c.a), ExtAnchorQ(sys, S, c))))
    ELSE IF S.sl[Vol][c.a][c.d] = U THEN S          \* cannot happen in the code's schedule (volume is resolved first)
    ELSE PutSl(S, c.o, c.a, c.d, S.sl[Vol][c.a][c.d])

Body(sys, S, c, i) == IF c.t = "gc" THEN GcBody(sys, S, c, i) ELSE IF c.t = "rc" THEN RcBody(sys, S, c, i) ELSE IF c.t = "pos" THEN PosBody(sys, S, c, i) ELSE SizeBody(sys, S, c, i)
RECURSIVE ConAxes(_, _, _, _)
\* the per-axis body of a multi-axis constraint for axis positions 1..k in order (an exception aborts: fail is absorbing)
ConAxes(sys, S, c, k) == IF k = 0 THEN S ELSE LET S1 == ConAxes(sys, S, c, k - 1) IN IF S1.fail THEN S1 ELSE Body(sys, S1, c, k)

Con(sys, S, j) ==
    LET c == sys.cons[j] IN
    IF S.fail THEN S
    ELSE IF c.t = "gc" THEN (IF ~Uniform(sys) THEN Fail(S) ELSE ConAxes(sys, S, c, Len(c.ax)))
    ELSE IF c.t = "rc" THEN ConAxes(sys, S, c, Len(c.ax))
    ELSE IF c.t = "pos" THEN ConAxes(sys, S, c, Len(c.ax))
    ELSE IF c.t = "size" THEN ConAxes(sys, S, c, Len(c.ax))
    ELSE ExtCon(sys, S, c)

\* ---------- extension to infinity (only at a fixpoint of everything above) ----------
\* (o, d) is NOT extended on axis a if ...
ExtBlocked(sys, S, o, a, d) ==
    \/ \E j \in 1..NCon(sys) : LET c == sys.cons[j] IN c.t = "ext" /\ c.a = a /\ c.o = o /\ c.d = d
    \/ \E j \in 1..NCon(sys) : LET c == sys.cons[j] IN c.t = "pos" /\ c.o = o /\ \E i \in 1..Len(c.ax) : c.ax[i] = a /\ ~Known(S, c.p, a)
    \/ Known(S, o, a)
    \/ (S.sh[o][a] # U /\ d = 2 /\ S.sl[o][a][2] = U)                         \* upper follows from size
    \/ (S.sh[o][a] # U /\ d = 1 /\ S.sl[o][a][2] # U /\ S.sl[o][a][1] = U)    \* lower follows from size
ExtValue(sys, S, a, d) == IF d = 1 THEN 0 ELSE S.sh[Vol][a]
ExtendAll(sys, S) ==
    [ S EXCEPT !.sl = [ o \in Objs(sys) |-> [ a \in Axes(sys) |->
          << IF S.sl[o][a][1] = U /\ ~ExtBlocked(sys, S, o, a, 1) THEN ExtValue(sys, S, a, 1) ELSE S.sl[o][a][1],
             IF S.sl[o][a][2] = U /\ ~ExtBlocked(sys, S, o, a, 2) THEN ExtValue(sys, S, a, 2) ELSE S.sl[o][a][2] >> ] ] ]

\* ---------- termination ----------
AllResolved(sys, S) == \A o \in Objs(sys), a \in Axes(sys) : S.sh[o][a] # U /\ Known(S, o, a)
AllSlices(sys, S)   == \A o \in Objs(sys), a \in Axes(sys) : Known(S, o, a)
\* closing checks of _handle_unresolved_objects + resolve_object_constraints: resolved, inside the volume, positive size
InsideOK(sys, sl) ==
    \A o \in Objs(sys) \ {Vol}, a \in Axes(sys) :
        /\ sl[o][a][1] # U /\ sl[o][a][2] # U
        /\ sl[o][a][1] >= sl[Vol][a][1] /\ sl[o][a][2] <= sl[Vol][a][2] /\ sl[o][a][1] < sl[o][a][2]
Finalize(sys, S) == IF S.fail \/ ~AllSlices(sys, S) \/ ~InsideOK(sys, S.sl) THEN Fail(S) ELSE S
Outcome(S) == IF S.fail THEN [ ok |-> FALSE, sl |-> << >> ] ELSE [ ok |-> TRUE, sl |-> S.sl ]

\* ---------- the code's schedule as a deterministic step function ----------
\* P = [pc, j, changed]: pc \in {"top","pos","sfs","shs","con","ext","done"}; j = next constraint; changed = flag of the iteration
SlotsEq(S, T) == S.sh = T.sh /\ S.sl = T.sl
SchedInit == [ pc |-> "top", j |-> 1, changed |-> FALSE ]
\* EarlyBreak = TRUE: the code as it is (leaves the loop as soon as every slot is filled, before re-checking the constraints)
SchedStep(sys, S, P, EarlyBreak) ==
    IF S.fail THEN << S, [ P EXCEPT !.pc = "done" ] >>
    ELSE IF P.pc = "top" THEN
        (IF EarlyBreak /\ AllResolved(sys, S) THEN << Finalize(sys, S), [ P EXCEPT !.pc = "done" ] >>
         ELSE << S, [ pc |-> "pos", j |-> 1, changed |-> FALSE ] >>)
    ELSE IF P.pc = "pos" THEN LET T == FoldOA("pos", sys, S, NPairs(sys)) IN << T, [ P EXCEPT !.pc = "sfs", !.changed = P.changed \/ ~SlotsEq(S, T) ] >>
    ELSE IF P.pc = "sfs" THEN LET T == FoldOA("sfs", sys, S, NPairs(sys)) IN << T, [ P EXCEPT !.pc = "shs", !.changed = P.changed \/ ~SlotsEq(S, T) ] >>
    ELSE IF P.pc = "shs" THEN LET T == FoldOA("shs", sys, S, NPairs(sys)) IN << T, [ P EXCEPT !.pc = "con", !.j = 1, !.changed = P.changed \/ ~SlotsEq(S, T) ] >>
    ELSE IF P.pc = "con" THEN
        (IF P.j > NCon(sys) THEN << S, [ P EXCEPT !.pc = "ext" ] >>
         ELSE LET T == Con(sys, S, P.j) IN << T, [ P EXCEPT !.j = P.j + 1, !.changed = P.changed \/ ~SlotsEq(S, T) ] >>)
    ELSE IF P.pc = "ext" THEN
        (IF P.changed THEN << S, [ P EXCEPT !.pc = "top" ] >>
         ELSE LET T == ExtendAll(sys, S) IN
              IF SlotsEq(S, T) THEN << Finalize(sys, S), [ P EXCEPT !.pc = "done" ] >>      \* unresolved objects are errors
              ELSE << T, [ P EXCEPT !.pc = "top" ] >>)
    ELSE << S, P >>

\* ---------- property C26 on final slices ----------
Size(sl, o, a) == sl[o][a][2] - sl[o][a][1]
HoldsGc(sys, sl, c)  == \A i \in 1..Len(c.ax) : sl[c.o][c.ax[i]][c.sd[i]] = c.co[i]
HoldsRc(sys, sl, c)  == \A i \in 1..Len(c.ax) : G!IsNearest(Ed(sys, c.ax[i]), c.co[i], sl[c.o][c.ax[i]][c.sd[i]])
\* position: among the intervals of the object's size that fit into the grid none has its anchor closer to the target
HoldsPos(sys, sl, c) ==
    \A i \in 1..Len(c.ax) :
        LET a == c.ax[i]  e == Ed(sys, a)
            anchor == G!AnchorQ(e, sl[c.p][a][1], sl[c.p][a][2], c.kp[i]) + c.m[i] + (IF c.gm[i] # 0 THEN c.gm[i] * Spacing(sys) ELSE 0)
        IN G!IsAnchorChoice(e, Size(sl, c.o, a), c.ko[i], anchor, sl[c.o][a][1], sl[c.o][a][2])
HoldsSize(sys, sl, c) ==
    \A i \in 1..Len(c.ax) :
        LET a == c.ax[i]  oa == c.oax[i]
            L == ((G!ExtentQ(Ed(sys, oa), sl[c.p][oa][1], sl[c.p][oa][2]) \div 4) * c.pr[i]) + c.off[i] + (IF c.goff[i] # 0 THEN c.goff[i] * Spacing(sys) ELSE 0)
        IN IsLenSize(sys, a, L, Size(sl, c.o, a))
HoldsExt(sys, sl, c) ==
    IF c.p = 0 THEN sl[c.o][c.a][c.d] = sl[Vol][c.a][c.d]
    ELSE G!IsNearest(Ed(sys, c.a),
                     G!AnchorQ(Ed(sys, c.a), sl[c.p][c.a][1], sl[c.p][c.a][2], c.kp) + c.off + (IF c.goff # 0 THEN c.goff * Spacing(sys) ELSE 0),
                     sl[c.o][c.a][c.d])
Holds(sys, sl, j) ==
    LET c == sys.cons[j] IN
    IF c.t = "gc" THEN HoldsGc(sys, sl, c) ELSE IF c.t = "rc" THEN HoldsRc(sys, sl, c) ELSE IF c.t = "pos" THEN HoldsPos(sys, sl, c)
    ELSE IF c.t = "size" THEN HoldsSize(sys, sl, c) ELSE HoldsExt(sys, sl, c)
\* an axis of an object nobody says anything about: no static shape/position and no constraint of that object on that axis
Touches(c, o, a) ==
    c.o = o /\ (IF c.t = "ext" THEN c.a = a ELSE \E i \in 1..Len(c.ax) : c.ax[i] = a)
Unconstrained(sys, o, a) ==
    /\ sys.objs[o].gs[a] = U /\ sys.objs[o].rs[a] = U /\ sys.objs[o].rp[a] = U
    /\ ~\E j \in 1..NCon(sys) : Touches(sys.cons[j], o, a)
SpansOK(sys, sl) == \A o \in Objs(sys), a \in Axes(sys) : Unconstrained(sys, o, a) => sl[o][a] = sl[Vol][a]
FirstBroken(sys, sl) == G!MinOf({ j \in 1..NCon(sys) : ~Holds(sys, sl, j) })
Sound(sys, sl) == InsideOK(sys, sl) /\ SpansOK(sys, sl) /\ \A j \in 1..NCon(sys) : Holds(sys, sl, j)
=======================================================================
