---------------------------- MODULE Reduce ----------------------------
(* Detector reductions of fdtdx as a small state machine: a run presents one integer field (E, H on the detector
   region, already co-located) per step to a family of detectors that differ only in their options, each
   modelled by its update rule:
       FieldDetector / PhasorDetector   spatial: the component;       reduce_volume: sum(vol*v) / sum(vol)
       EnergyDetector                   spatial: energy density;      reduce_volume: sum(vol*energy)
       PoyntingFluxDetector             spatial: (+-) (E x H)_a or all three;   reduce_volume: sum(area_a * S_a)
       ClosedSurfacePoyntingFluxDetector   sum over active axes of max-face minus min-face flux, (+-) orientation
   The recorded outputs of one step are kept in `out`; property C16 = the identities below between them.

   Variant selects deliberately wrong reductions (negative instances):
     "mean_unweighted"  reduce_volume averages without the cell volumes
     "closed_all_plus"  closed surface adds the min faces instead of subtracting them                 *)
EXTENDS ReduceDefs, TLC

CONSTANTS MaxN, Variant
VARIABLES n, W, fid, out
vars == << n, W, fid, out >>

WidthPatterns == { << <<1, 1, 1>>, <<1, 1, 1>>, <<1, 1, 1>> >>, << <<1, 3, 2>>, <<2, 1, 3>>, <<3, 2, 1>> >>, << <<2, 2, 3>>, <<1, 3, 1>>, <<1, 2, 2>> >> }
NumFields == 4
\* integer test fields: f = 0 generic polynomial, 1..3 a single non-zero component pair
EF(f, c, q) == IF f = 0 THEN (c + 1) * (q[1] + 2) - 3 * q[2] + q[3] * q[3] - c * c
               ELSE IF c = f THEN 2 + q[1] - q[2] + 2 * q[3] ELSE 0
HF(f, c, q) == IF f = 0 THEN 2 * c - q[1] + (q[2] + 1) * (q[3] + c) - 4
               ELSE IF c = (f % 3) + 1 THEN 3 - q[1] + q[2] ELSE 0
E(f) == [ c \in 1..3 |-> [ q \in Cells(n) |-> EF(f, c, q) ] ]
H(f) == [ c \in 1..3 |-> [ q \in Cells(n) |-> HF(f, c, q) ] ]
Eps == [ c \in 1..3 |-> [ q \in Cells(n) |-> 1 + ((q[1] + c) % 2) ] ]
Mu == [ c \in 1..3 |-> [ q \in Cells(n) |-> 1 ] ]
S(f) == [ a \in 1..3 |-> [ q \in Cells(n) |-> Cross(E(f), H(f), a - 1, q) ] ]

\* ---- implementation-shaped update rules; results are exact rationals <<num, den>>
ImplMean(g) == IF Variant = "mean_unweighted" THEN << SumSet(Cells(n), g), Cardinality(Cells(n)) >>
               ELSE << VolSum(W, n, g), TotVol(W, n) >>
ImplFlux(f, a, dir, reduce) ==      \* single component a, direction sign dir, spatial (cell function) or reduced
    IF reduce THEN dir * AreaSum(W, n, a, S(f)[a + 1]) ELSE [ q \in Cells(n) |-> dir * S(f)[a + 1][q] ]
ImplClosed(f, axes, orient) ==
    orient * SumSet(axes, [ a \in axes |->
        FaceFlux(W, n, a, "max", S(f)) + (IF Variant = "closed_all_plus" THEN 1 ELSE -1) * FaceFlux(W, n, a, "min", S(f)) ])
\* a separate single-plane PoyntingFluxDetector(reduce_volume, fixed_propagation_axis=a) placed on one face of the box:
\* its own region is the face, its own widths are the box widths restricted to the face
FaceDetector(f, a, side) ==
    LET fn == [ n EXCEPT ![a + 1] = 1 ]
        at == IF side = "min" THEN 0 ELSE n[a + 1] - 1
        fw == [ W EXCEPT ![a + 1] = << W[a + 1][at + 1] >> ]
        fs == [ q \in Cells(fn) |-> S(f)[a + 1][ [ q EXCEPT ![a + 1] = at ] ] ]
    IN  AreaSum(fw, fn, a, fs)

Outputs(f) ==
    [ fieldRed |-> [ c \in 1..3 |-> ImplMean(E(f)[c]) ],
      energySp |-> [ q \in Cells(n) |-> Energy2(E(f), H(f), Eps, Mu, q) ],
      energyRed |-> VolSum(W, n, [ q \in Cells(n) |-> Energy2(E(f), H(f), Eps, Mu, q) ]),
      closedOut |-> ImplClosed(f, DefaultAxes(n), 1),
      closedIn |-> ImplClosed(f, DefaultAxes(n), -1) ]

Init == /\ n \in (1..MaxN) \X (1..MaxN) \X (1..MaxN)
        /\ W \in WidthPatterns
        /\ fid = 0
        /\ out = Outputs(0)
Step == /\ fid + 1 < NumFields
        /\ fid' = fid + 1
        /\ out' = Outputs(fid + 1)
        /\ UNCHANGED << n, W >>
Next == Step
Spec == Init /\ [][Next]_vars

\* ---------------------------------------------------------------- C16 identities
MeanIdentity == \A c \in 1..3 : out.fieldRed[c][1] * TotVol(W, n) = VolSum(W, n, E(fid)[c]) * out.fieldRed[c][2]
MeanOfConstant == LET k == [ q \in Cells(n) |-> 7 ] IN ImplMean(k)[1] = 7 * ImplMean(k)[2]
EnergyIdentity == IsVolSum(out.energyRed, W, n, out.energySp) /\ \A q \in Cells(n) : out.energySp[q] >= 0
FluxIdentities ==
    \A a \in 0..2 :
        /\ IsAreaSum(ImplFlux(fid, a, 1, TRUE), W, n, a, ImplFlux(fid, a, 1, FALSE))              \* reduced = area-weighted sum of spatial
        /\ ImplFlux(fid, a, -1, TRUE) = -ImplFlux(fid, a, 1, TRUE)                                   \* "-" negates
        /\ \A q \in Cells(n) : ImplFlux(fid, a, -1, FALSE)[q] = -ImplFlux(fid, a, 1, FALSE)[q]
ClosedIdentity ==
    /\ out.closedOut = SumSet(DefaultAxes(n), [ a \in DefaultAxes(n) |-> FaceDetector(fid, a, "max") - FaceDetector(fid, a, "min") ])
    /\ out.closedIn = -out.closedOut
    /\ out.closedOut = NetOutward(W, n, DefaultAxes(n), S(fid))
\* a size-one axis contributes nothing, so listing it explicitly does not change the result
ThinAxisCancels == NetOutward(W, n, 0..2, S(fid)) = NetOutward(W, n, DefaultAxes(n), S(fid))
\* summed records are extensive: the box equals its two halves along x
Extensive ==
    n[1] = 2 =>
        LET h == [ n EXCEPT ![1] = 1 ]
            g == out.energySp
            lo == VolSum([ W EXCEPT ![1] = << W[1][1] >> ], h, [ q \in Cells(h) |-> g[q] ])
            hi == VolSum([ W EXCEPT ![1] = << W[1][2] >> ], h, [ q \in Cells(h) |-> g[ << 1, q[2], q[3] >> ] ])
        IN  out.energyRed = lo + hi
=======================================================================
