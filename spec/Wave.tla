----------------------------- MODULE Wave -----------------------------
(* Wave descriptions and temporal source profiles of fdtdx as a small state machine.

   (1) WaveCharacter (core/wavelength.py): exactly one of period / frequency / free-space wavelength is given;
       get_period / get_frequency / get_wavelength derive the others.  Checked for every description of the
       finite universe Descs in exact rationals:  period * frequency = 1,  wavelength = c * period,  and the
       given quantity comes back unchanged.
   (2) CustomTimeSignalProfile (objects/sources/profile.py): the simulation clock advances over a grid of Sub
       points per sample interval (the FDTD loop evaluates sources at integer and half steps; Sub = 4 also covers
       quarter points) and the profile returns an amplitude at every tick:
           Tick == t := t + 1;  out := get_amplitude(t)
       Property: out equals the sample at sample times (AtSamples) and lies on the chord between the two
       neighbouring samples in between (Linear); outside the sampled window the outside value is returned, and the
       code's hold of the last sample over the final interval is modelled as it is (HoldLast, named deviation).
   (3) Envelopes (trace-monitor clauses of C41) in their ideal form: a ramp min(t, R)/R multiplied with a carrier
       of modulus <= 1 (SingleFrequencyProfile) never exceeds unit amplitude and the ramp never decreases.
       RampVariant "unclamped" (t/R without the clip) is the negative instance of that clause.             *)
EXTENDS WaveDefs

CONSTANTS Nums,          \* numerators/denominators of the rational wave parameters
          MaxLen,        \* number of samples of the custom signal: 2..MaxLen
          Vals,          \* sample values
          Sub,           \* grid points per sample interval
          WaveVariant,   \* "design" | "c_times_f"
          AmpVariant,    \* "linear" | "swapped" | "hold" | "truncated"
          RampVariant    \* "clamped" | "unclamped"

VARIABLES sig,    \* the sampled signal (sequence of integers)
          t,      \* grid index of the simulation clock (t = -Sub .. (Len(sig)+1)*Sub)
          out,    \* amplitude returned at t: << num, den >>
          cw      \* ideal continuous-wave amplitude at t, times R: ramp numerator * carrier
vars == << sig, t, out, cw >>

Outside == 0
\* value sets for the configurations (a .cfg file cannot contain negative literals)
ValsA == { -2, -1, 0, 1, 3 }
ValsB == { -2, 0, 3 }
ValsC == { 0, 1 }
Descs == { << g, << a, b >> >> : g \in { "period", "frequency", "wavelength" }, a \in Nums, b \in Nums }
Signals == UNION { [ 1..n -> Vals ] : n \in 2..MaxLen }

\* ideal CW profile on the same clock: ramp over R = 2*Sub ticks, carrier cos(pi/2 * t) in {1, 0, -1, 0}
R == 2 * Sub
Carrier(k) == << 1, 0, -1, 0 >>[(k % 4) + 1]
RampNum(k) == IF k <= 0 THEN 0 ELSE IF RampVariant = "clamped" /\ k >= R THEN R ELSE k
CwAmp(k) == RampNum(k) * Carrier(IF k < 0 THEN 0 ELSE k)

Init == /\ sig \in Signals
        /\ t = -Sub
        /\ out = Amp(sig, -Sub, Sub, Outside, AmpVariant)
        /\ cw = CwAmp(-Sub)
Tick == /\ t < (Len(sig) + 1) * Sub
        /\ t' = t + 1
        /\ out' = Amp(sig, t + 1, Sub, Outside, AmpVariant)
        /\ cw' = CwAmp(t + 1)
        /\ UNCHANGED sig
Next == Tick
Spec == Init /\ [][Next]_vars

\* ---------- properties ----------
TypeOK == /\ Len(sig) \in 2..MaxLen /\ t \in (-Sub)..((Len(sig) + 1) * Sub) /\ out[2] = Sub

\* (1) checked once, over the whole universe of descriptions
WaveOK == t = -Sub =>
    \A d \in Descs :
        LET P == GetPeriod(d[1], d[2], WaveVariant)
            F == GetFrequency(d[1], d[2], WaveVariant)
            L == GetWavelength(d[1], d[2], WaveVariant)
        IN  WaveConsistent(P, F, L) /\ Echo(d[1], d[2], P, F, L)

\* (2)
AtSamples == AtSampleTimes(sig, t, Sub, out)
Linear    == LinearBetween(sig, t, Sub, out)
OutsideWindow == ~InWindow(sig, t, Sub) => REq(out, << Outside, 1 >>)
HoldLast  == (InWindow(sig, t, Sub) /\ SampleIdx(t, Sub) = Len(sig) - 1) => REq(out, << sig[Len(sig)], 1 >>)
\* between two samples the value never leaves their range (a consequence of Linear, stated for the reader)
Min2(a, b) == IF a < b THEN a ELSE b
Max2(a, b) == IF a < b THEN b ELSE a
Between == (t >= 0 /\ SampleIdx(t, Sub) + 2 <= Len(sig)) =>
              LET i == SampleIdx(t, Sub) IN
              /\ out[1] >= Min2(sig[i + 1], sig[i + 2]) * out[2]
              /\ out[1] <= Max2(sig[i + 1], sig[i + 2]) * out[2]

\* (3)
CwBounded == Abs(cw) <= R
CwRampUp  == [][ RampNum(t + 1) >= RampNum(t) /\ RampNum(t + 1) <= R ]_vars
CwReaches == t >= R => RampNum(t) = R
=======================================================================
