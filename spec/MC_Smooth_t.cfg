SPECIFICATION Spec
CONSTANTS
  Kernels = { "binomial", "box", "cross", "skew", "wide" }
  Grids <- GridsT
  Vals <- Bits
  PadVals <- Two
  PadMode = "edge"
INVARIANT TypeOK
INVARIANT KernelFacts
INVARIANT Range
INVARIANT Constants
INVARIANT Affine
INVARIANT Mirror
CHECK_DEADLOCK TRUE
