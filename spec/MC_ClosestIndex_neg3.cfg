SPECIFICATION Spec
CONSTANTS
  MaxN = 3
  Shapes <- ShapesNeg
  BigShapes <- NoShapes
  BigN = 0
  MatSets <- MatSetsQ
  Variant = "floor"
INVARIANT TypeOK
INVARIANT ShapeKept
INVARIANT Nearest
INVARIANT GradOne
CHECK_DEADLOCK FALSE
