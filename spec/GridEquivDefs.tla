-------------------------- MODULE GridEquivDefs --------------------------
(* Pure definitions for C38: the per-axis metric scale of core/physics/curl.py::_metric_scale on a rectilinear
   grid, as exact rationals <<num, den>>:
       forward  stencil (curl_E):  scale[i] = ref / w[i]
       backward stencil (curl_H):  scale[i] = ref / ((w[i] + w[max(i-1, first)]) / 2)
   with ref = c*dt / courant_number, which for an equal-spacing grid is the spacing d itself.  A uniform policy
   uses the raw finite difference (scale 1).  Widths are positive integers (units), i is 1-based.          *)
EXTENDS Integers, Sequences, FiniteSets, TLC

EqualWidths(n, d) == [ i \in 1..n |-> d ]
\* variant "ref_no_courant": the reference spacing misses the division by the Courant number (here 1/2)
RefSpacing(d, variant) == IF variant = "ref_no_courant" THEN 2 * d ELSE d
ScaleFwd(w, ref) == [ i \in 1..Len(w) |-> << ref, w[i] >> ]
ScaleBwd(w, ref) == [ i \in 1..Len(w) |-> << 2 * ref, w[i] + w[IF i = 1 THEN 1 ELSE i - 1] >> ]
IsOne(r) == r[1] = r[2]
\* scaled difference as an exact rational, and equality of rationals
Scaled(r, delta) == << r[1] * delta, r[2] >>
RatEq(x, y) == x[1] * y[2] = y[1] * x[2]
\* value of a rational that must be an integer (the model's lattices stay integral for equal spacings)
IntOf(r) == r[1] \div r[2]
Integral(r) == r[1] % r[2] = 0

\* 1-D periodic two-component lattice (Ez, Hy along x):  descriptions "uniform" | "rect" | "quasi"
Wrap(i, n) == IF i = 0 THEN n ELSE IF i = n + 1 THEN 1 ELSE i
DerivFwd(F, i, desc, w, ref) ==
    LET delta == F[Wrap(i + 1, Len(F))] - F[i]
    IN  IF desc = "uniform" THEN delta ELSE IntOf(Scaled(ScaleFwd(w, ref)[i], delta))
DerivBwd(F, i, desc, w, ref) ==
    LET delta == F[i] - F[Wrap(i - 1, Len(F))]
    IN  IF desc = "uniform" THEN delta ELSE IntOf(Scaled(ScaleBwd(w, ref)[i], delta))
StepE1(E, H, mat, desc, w, ref) == [ i \in 1..Len(E) |-> E[i] + mat[i] * DerivBwd(H, i, desc, w, ref) ]
StepH1(E, H, desc, w, ref)      == [ i \in 1..Len(H) |-> H[i] + DerivFwd(E, i, desc, w, ref) ]

\* ---------- edge / origin rule of the three descriptions ----------
\* Every description centres the domain at 0: the edge array of axis a (1..3) of a volume with shp[a] cells of
\* width d starts at  origin[a] = -shp[a]*d/2  (UniformGrid.resolve, QuasiUniformGrid.resolve; an explicit
\* RectilinearGrid is given with exactly these edges).  Coordinates are kept in HALF units (x2 = 2*x) so that the
\* centred origins stay integral.
\* variant "origin_other_axis": the uniform policy computes the z origin from the y cell count
OriginAxis(desc, a, variant) == IF desc = "uniform" /\ variant = "origin_other_axis" /\ a = 3 THEN 2 ELSE a
Edges2(desc, shp, a, d, variant) == [ i \in 0..shp[a] |-> 2 * d * i - shp[OriginAxis(desc, a, variant)] * d ]
\* index of the edge a real coordinate x2 (on an edge of the reference grid) resolves to: the nearest edge
\* (first minimum), as RectilinearGrid.coord_to_index does
Dist2(e, i, x2) == IF e[i] >= x2 THEN e[i] - x2 ELSE x2 - e[i]
NearestEdge(e, n, x2) == CHOOSE i \in 0..n : \A j \in 0..n : Dist2(e, i, x2) < Dist2(e, j, x2) \/ (Dist2(e, i, x2) = Dist2(e, j, x2) /\ i <= j)

\* ---------- placement through partial_real_position (relative to the DOMAIN CENTRE) ----------
\* Each description may sit anywhere in space: its edges are Edges2 shifted by the centre coordinate c2 (half units).
\* fdtd/initialization.py::_center_to_bounds_for_grid: target = rel + (e[0] + e[n]) / 2, then
\* RectilinearGrid.bounds_for_center: the interval [lower, lower+size) whose centre is nearest (first minimum).
\* variant "center_nonuniform_only": the domain-centre term is added only for non-uniform grids, i.e. never here
ShiftedEdges2(desc, shp, a, d, c2, variant) == [ i \in 0..shp[a] |-> Edges2(desc, shp, a, d, variant)[i] + c2 ]
DomainCentre2(e, n) == (e[0] + e[n]) \div 2
IntervalCentre2(e, lo, size) == (e[lo] + e[lo + size]) \div 2
AbsV(x) == IF x < 0 THEN -x ELSE x
BoundsForCentre(e, n, size, target2) ==
    CHOOSE lo \in 0..(n - size) :
        \A l2 \in 0..(n - size) :
            \/ AbsV(IntervalCentre2(e, lo, size) - target2) < AbsV(IntervalCentre2(e, l2, size) - target2)
            \/ (AbsV(IntervalCentre2(e, lo, size) - target2) = AbsV(IntervalCentre2(e, l2, size) - target2) /\ lo <= l2)
\* lower bound resolved for an object of `size` cells whose centre is requested at rel2 (relative to the domain centre)
PlaceByCentre(e, n, size, rel2, variant) ==
    BoundsForCentre(e, n, size, IF variant = "center_nonuniform_only" THEN rel2 ELSE rel2 + DomainCentre2(e, n))
\* the request that means "cells lo .. lo+size-1" on a domain of n cells of width d: interval centre relative to the
\* domain centre (exact interval centre: never a tie)
RelCentre2(lo, size, n, d) == d * (2 * lo + size) - n * d
=============================================================================
