SPECIFICATION Spec
CONSTANTS TypeSet = {"pml", "periodic", "pec"}  BaseSet = {"pml"}  OvSet = {"none", "pec"}
          MaxTh = 2  ThickMode = "few"  NX = 5  NY = 6  NZ = 7  Variant = "copy_paste"
INVARIANT TypeOK
INVARIANT ErrorIffUnknown
INVARIANT TablesPerFace
INVARIANT ClassPerFace
INVARIANT ThicknessRule
INVARIANT ParamsPerFace
INVARIANT BlochVector
INVARIANT SlabFlush
INVARIANT OppositeDisjoint
INVARIANT CornerExact
INVARIANT WrapIffPeriodic
CHECK_DEADLOCK FALSE
