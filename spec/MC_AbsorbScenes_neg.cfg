SPECIFICATION Spec
CONSTANTS LossPerHit = 4  ChargeFree = FALSE  OpenFace = "none"  Transits = 4  StretchApplied = TRUE
INVARIANT QuietAbsorbed
CHECK_DEADLOCK FALSE
