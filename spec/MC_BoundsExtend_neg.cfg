SPECIFICATION Spec
CONSTANTS N1 = 4  N2 = 3  N3 = 3  MaxTh = 1  Variant = "edge_off"
INVARIANT TypeOK
INVARIANT ClampForm
INVARIANT InteriorUntouched
INVARIANT SourcesOutside
CHECK_DEADLOCK FALSE
