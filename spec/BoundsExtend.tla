--------------------------- MODULE BoundsExtend ---------------------------
(* X02 part 4 - extend_material_to_pml (utils/extend_pml.py).

   The code loops over the PML objects (in whatever order they sit in the object list); for each it
   overwrites the PML slab - over the WHOLE cross-section, corners with other boundaries included - with the
   one layer of cells next to the slab on the inside (index T for a min face, N-T-1 for a max face).
   The contract a user relies on is order-free and declarative:

        after[x,y,z] = before[ clamp_x(x), clamp_y(y), clamp_z(z) ]

   where clamp_a moves a coordinate lying in a PML of axis a to the nearest cell outside that PML and
   leaves every other coordinate alone (faces that are not PML do not clamp).  So the region outside all
   PMLs is untouched, a PML face continues the adjacent layer, and an edge/corner shared by two/three PMLs
   continues the edge/corner cell of that region.

   The array is modelled with tokens: before[x,y,z] = <<x,y,z>>; the code only copies values, so the
   result names, cell by cell, where its value came from (parametricity).  TLC explores every processing
   ORDER (one PML per step, chosen non-deterministically) and checks the loop always ends in the clamp
   form, and that cells outside all PMLs never change on the way.                                       *)
EXTENDS BoundsDefs

CONSTANTS N1, N2, N3,   \* cell counts (only thickness pairs that leave at least one cell outside the PMLs are explored)
          MaxTh,
          Variant       \* "code" | "edge_off" (copies from the wrong layer)

Dims == << N1, N2, N3 >>
ASSUME \A a \in Axes : Dims[a] >= 3
Cells == (0..(N1 - 1)) \X (0..(N2 - 1)) \X (0..(N3 - 1))

VARIABLES types, thick,   \* input: face -> "pml" | "pec",  face -> 1..MaxTh
          arr,            \* cell -> token
          todo            \* PML faces still to be processed
vars == << types, thick, arr, todo >>

Init == /\ types \in [ Faces -> {"pml", "pec"} ]
        /\ thick \in [ Faces -> 1..MaxTh ]
        /\ \A f \in Faces : types[f] # "pml" => thick[f] = 1          \* thickness is irrelevant off PML: fix it
        /\ \A a \in Axes : Hi(types, thick, a, Dims[a]) > Lo(types, thick, a)       \* precondition: something is left outside the PMLs
        /\ arr = [ c \in Cells |-> c ]
        /\ todo = { f \in Faces : types[f] = "pml" }

InSlab(c, f) == c[AxisOf(f)] \in SlabCells(f, thick[f], Dims[AxisOf(f)])
ExtendOne(f) ==
    /\ f \in todo
    /\ LET a == AxisOf(f)
           e == EdgeOf(f, thick[f], Dims[a], Variant)
       IN arr' = [ c \in Cells |-> IF InSlab(c, f) THEN arr[ [ c EXCEPT ![a] = e ] ] ELSE arr[c] ]
    /\ todo' = todo \ {f}
    /\ UNCHANGED << types, thick >>

Next == \E f \in Faces : ExtendOne(f)
Spec == Init /\ [][Next]_vars

\* ------------------------------- properties -------------------------------
ClampCell(c) == [ a \in Axes |-> ClampTo(c[a], Lo(types, thick, a), Hi(types, thick, a, Dims[a])) ]
Interior(c)  == \A a \in Axes : c[a] >= Lo(types, thick, a) /\ c[a] < Hi(types, thick, a, Dims[a])
Processed    == { f \in Faces : types[f] = "pml" } \ todo
\* final result = clamp form, whatever the order
ClampForm == todo = {} => \A c \in Cells : arr[c] = ClampCell(c)
\* the region outside all PMLs is never written
InteriorUntouched == \A c \in Cells : Interior(c) => arr[c] = c
\* every value always stems from a cell outside the PMLs already processed (no PML-born value survives a pass)
SourcesOutside == \A c \in Cells : \A f \in Processed : ~InSlab(arr[c], f)
TypeOK == todo \subseteq Faces
=========================================================================
