SPECIFICATION Spec
CONSTANTS MaxDepth = 2  MaxUpdates = 2  Mode = "spine"  ShareSet = {TRUE, FALSE}  NegIdx = TRUE  Rich = TRUE  CreateNew = TRUE
INVARIANT TypeOK
INVARIANT Persistent
INVARIANT PathOnly
INVARIANT TypeKept
INVARIANT ValueUntouched
INVARIANT ResultFresh
INVARIANT SpineOnly
INVARIANT NewSlotAdded
INVARIANT ChildrenOlder
PROPERTY AppendOnly
CHECK_DEADLOCK FALSE
