SPECIFICATION Spec
CONSTANTS
  Shapes <- ShapesN
  Kinds <- KindsN
  MaxT = 1
  Variant = "tensor_diag_only"
  Srcs = "few"
INVARIANT TypeOK
INVARIANT PermInv
INVARIANT PermBijective
INVARIANT PermCubeId
INVARIANT TensorPermOK
CHECK_DEADLOCK FALSE
