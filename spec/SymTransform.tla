--------------------------- MODULE SymTransform ---------------------------
(* The design symmetry transforms of fdtdx (objects/device/parameters/symmetries.py:
   Horizontal/Vertical/Point/DiagonalSymmetry2D and ...3D with all options) as a machine

        phase "in" --Apply--> "once" --Apply--> "twice"

   Apply is the code's rule: average the current array with its reflected / rotated / transposed copy.
   The initial states are ALL (kind, shape, input array) triples inside the bound; a kind is only
   started on shapes it is documented for (2D: exactly one singleton axis, in any position; diagonals:
   equal sizes on the swapped axes).  Values are integers (multiples of 8, so that both halvings are exact).

   Property C21 (invariants):
     Invariance      after one application the array is invariant under the kind's Sigma
     IdentityOnSym   a Sigma-symmetric input comes back unchanged
     Idempotent      the second application changes nothing
     MeanKept        the sum (hence the mean) of the array is preserved
   Variant: "spec" | "rot90" (anti-diagonals mirror only one axis before transposing) | "no_half" (sum, not mean) *)
EXTENDS SymTransformDefs, TLC

CONSTANTS KindSet,      \* kinds explored
          ShapeSet,     \* shapes explored (each kind only on its applicable shapes)
          Full3,        \* arrays with at most Full3 voxels: every array over {0, 8, 16}
          Full2,        \* up to Full2 voxels: every array over {0, 8}
                        \* larger: every array with at most two non-zero voxels (values 8, 16)
          Variant

VARIABLES kind, shape, inp, phase, cur, first
vars == << kind, shape, inp, phase, cur, first >>

\* shape sets (a .cfg cannot contain tuples)
Shapes2D  == { s \in [ 1..3 -> 1..3 ] : Is2DShape(s) }            \* 2x2, 2x3, 3x2, 3x3 images, singleton axis anywhere
Shapes3Dq == { <<2,2,2>> }                      \* 3x3x3 (sparse arrays) is explored in the thorough tier only
Shapes3Dt == { <<2,2,2>>, <<3,3,3>>, <<2,2,3>>, <<2,3,2>>, <<3,2,2>>, <<3,3,2>>, <<3,2,3>>, <<2,3,3>>, <<4,4,1>>, <<1,2,2>> }
ShapesQ   == Shapes2D \cup Shapes3Dq
ShapesT   == Shapes2D \cup Shapes3Dt
AllKinds  == Kinds2D \cup Kinds3D
AntiKinds == { "d2d_anti", "d3d_xy_anti", "d3d_xz_anti", "d3d_yz_anti" }
ShapesNeg == { <<3,3,1>>, <<1,2,2>>, <<2,2,2>> }

Inputs(s) ==
    IF Size(s) <= Full3 THEN [ Positions(s) -> {0, 8, 16} ]
    ELSE IF Size(s) <= Full2 THEN [ Positions(s) -> {0, 8} ]
    ELSE { [ p \in Positions(s) |-> IF p = a THEN va ELSE IF p = b THEN vb ELSE 0 ] :
              a \in Positions(s), b \in Positions(s), va \in {0, 8}, vb \in {8, 16} }

\* geometry sanity, checked once: every Sigma is an involution on the positions of every applicable shape
ASSUME \A k \in KindSet, s \in ShapeSet : Applicable(k, s) => SigmaInvolution(k, s)

Init == /\ kind \in KindSet /\ shape \in ShapeSet
        /\ Applicable(kind, shape)
        /\ inp \in Inputs(shape)
        /\ phase = "in" /\ cur = inp /\ first = inp

T(arr) == IF Variant = "rot90" /\ kind \in AntiKinds THEN AveragedRot90(arr, shape, kind)
          ELSE IF Variant = "no_half" THEN [ p \in Positions(shape) |-> arr[p] + arr[Sigma(kind, shape, p)] ]
          ELSE Averaged(arr, shape, kind)

Apply == /\ phase \in {"in", "once"}
         /\ cur' = T(cur)
         /\ first' = IF phase = "in" THEN cur' ELSE first
         /\ phase' = IF phase = "in" THEN "once" ELSE "twice"
         /\ UNCHANGED << kind, shape, inp >>

Next == Apply
Spec == Init /\ [][Next]_vars

\* ---------- properties ----------
TypeOK == /\ kind \in AllKinds /\ Applicable(kind, shape) /\ phase \in {"in", "once", "twice"}
          /\ DOMAIN cur = Positions(shape)
          /\ phase \in {"in", "once"} /\ Variant = "spec" => EvenSums(cur, shape, kind)   \* halving is exact

Invariance    == phase # "in" => IsSymmetric(cur, shape, kind)
IdentityOnSym == phase = "once" /\ IsSymmetric(inp, shape, kind) => cur = inp
Idempotent    == phase = "twice" => cur = first
MeanKept      == phase # "in" => Total(cur, shape) = Total(inp, shape)
===========================================================================
