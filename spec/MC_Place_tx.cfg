SPECIFICATION Spec
CONSTANTS CatFile = "Place_catalogue_x.json"  MaxCons = 2  MaxSpec = 9  EarlyBreak = FALSE  SkipKnown = FALSE
INVARIANT Confluence
INVARIANT Soundness
INVARIANT PassItemsCommute
PROPERTY WriteOnce
PROPERTY FailSticky
CHECK_DEADLOCK FALSE
