SPECIFICATION Spec
CONSTANTS
  Shapes <- ShapesImpl
  Modes = { "material" }
  Loop = "maxside"
  Seed = "padded"
  Filter <- AnyDesign
INVARIANT TypeOK
INVARIANT RankWitness
INVARIANT ConnSound
INVARIANT BoundedModelAgrees
PROPERTY GrowOnly
CHECK_DEADLOCK TRUE
