SPECIFICATION Spec
CONSTANTS
  Shapes <- ShapesQ
  MaxT = 1
  Variant = "parity"
INVARIANT TypeOK
INVARIANT SymInv
INVARIANT StaysConsistent
CHECK_DEADLOCK FALSE
