SPECIFICATION Spec
CONSTANTS TypeSet = {"pml", "periodic"}  BaseSet = {"pml"}  OvSet = {"none"}
          MaxTh = 3  ThickMode = "all"  Scope = "all"  NX = 7  NY = 8  NZ = 9  Variant = "code"
INVARIANT TypeOK
INVARIANT ErrorIffUnknown
INVARIANT TablesPerFace
INVARIANT ClassPerFace
INVARIANT ThicknessRule
INVARIANT ParamsPerFace
INVARIANT BlochVector
INVARIANT SlabFlush
INVARIANT OppositeDisjoint
INVARIANT CornerExact
INVARIANT WrapIffPeriodic
INVARIANT InsideAvoidsPml
CHECK_DEADLOCK FALSE
