---------------------------- MODULE Phasor ----------------------------
(* The phasor detectors of fdtdx (PhasorDetector.update and subclasses) as a state machine: one action per
   simulation step t = 0..T-1; on a recorded step the accumulator gains
         w(t) * F(t) * exp(i omega t dt)            (minus for inverse-time detectors)
   Recorded steps: every stride-th ACTIVE step of the detector's switch (PhasorDetector._calculate_on_list).
   Stored value = accumulator * scale, scale = 2 / sum_{recorded} w  (continuous) or stride (pulse).

   Property C17 (first half), as invariants over all runs inside the bounds:
     AccIsDFT      the stored value equals scale * windowed DFT sum over the recorded steps so far
     KeptShape     recorded steps = first active step and then every stride-th active one
     Reconstructs  (why 2/sum w) an all-on, unwindowed record of A*cos(omega t) over whole periods gives A
   One scalar sample suffices: the update acts per component, per cell and per frequency.
   The Poynting half of the property is a pure definition (PhasorDefs!PoyntingRe); lemma FluxPhaseInvariant.

   Variant selects deliberately wrong implementations (negative instances):
     "stride_on_all_steps" thins by t % stride over all steps instead of over the active ones
     "no_window"           omits the window weight in the increment but keeps the 2/sum(w) scale          *)
EXTENDS PhasorDefs, TLC

CONSTANTS MaxT, MaxStride, Variant

VARIABLES T, base, stride, mode, inv, win, q, hist, t,
          stn      \* numerator of the stored (scaled) value over the fixed denominator Den
vars == << T, base, stride, mode, inv, win, q, hist, t, stn >>

Amp == 12
\* abstract window tables (4 * weight, weights are multiples of 1/4, zeros allowed)
W4(w, s) == IF w = "none" THEN 4 ELSE IF w = "ramp" THEN s % 5 ELSE << 0, 2, 4, 2 >>[(s % 4) + 1]
WTab == [ s \in 0..(T - 1) |-> W4(win, s) ]
\* field histories: unit impulses (the map is linear), a sampled cosine at the analysed frequency, a generic one
Hists == { << "cos", 0 >>, << "quad", 0 >> } \cup { << "imp", s >> : s \in 0..(MaxT - 1) }
F(s) == IF hist[1] = "cos" THEN Amp * Rot(q, s)[1]
        ELSE IF hist[1] = "quad" THEN s * s - 3 * s + 1
        ELSE IF hist[2] = s THEN Amp ELSE 0
FTab == [ s \in 0..(T - 1) |-> F(s) ]

DocKept == Kept(base, T, stride)
ImplKept == IF Variant = "stride_on_all_steps" THEN { s \in Active(base, T) : s % stride = 0 } ELSE DocKept
ImplW4(s) == IF Variant = "no_window" THEN 4 ELSE W4(win, s)
\* scale * w(t) = ScaleNum * w4(t) / Den :   continuous 2/sum(w) = 8/wsum4 ;  pulse  stride
ScaleNum == IF mode = "continuous" THEN 2 ELSE stride
Den == IF mode = "continuous" THEN WSum4(WTab, DocKept, T) ELSE 4

Init == /\ T \in 1..MaxT
        /\ base \in [ 0..(T - 1) -> BOOLEAN ]
        /\ stride \in 1..MaxStride
        /\ mode \in { "continuous", "pulse" }
        /\ inv \in BOOLEAN
        /\ win \in { "none", "ramp", "hann" }
        /\ q \in 1..3
        /\ hist \in { h \in Hists : h[2] < T }
        /\ WSum4([ s \in 0..(T - 1) |-> W4(win, s) ], Kept(base, T, stride), T) > 0     \* the code refuses a window summing to <= 0
        /\ t = 0 /\ stn = CZero

\* one simulation step: update_detector_states calls update() only when the detector is on at t
Record ==
    /\ t < T
    /\ stn' = IF t \in ImplKept
              THEN LET inc == CScale(ScaleNum * ImplW4(t) * F(t), Rot(q, t)) IN IF inv THEN CSub(stn, inc) ELSE CAdd(stn, inc)
              ELSE stn
    /\ t' = t + 1
    /\ UNCHANGED << T, base, stride, mode, inv, win, q, hist >>

Next == Record
Spec == Init /\ [][Next]_vars

\* ---------------------------------------------------------------- properties
TypeOK == t \in 0..T /\ stride >= 1

\* stored value stn / Den  =  scale * windowed DFT over the recorded steps so far
AccIsDFT == stn = CScale(ScaleNum, Dft4(FTab, WTab, DocKept, q, t, inv))

KeptShape ==
    LET A == Active(base, T)  K == DocKept IN
    /\ K \subseteq A
    /\ (A # {}) => (CHOOSE m \in A : \A s \in A : m <= s) \in K                                   \* first active step is recorded
    /\ \A a, b \in K : (a < b /\ ~\E c \in K : a < c /\ c < b) => Cardinality({ s \in A : a <= s /\ s < b }) = stride
    /\ \A a \in K : (~\E b \in K : a < b) => Cardinality({ s \in A : a <= s }) <= stride     \* nothing recordable after the last one
    /\ (A # {}) => (Cardinality(K) * stride >= Cardinality(A) /\ (Cardinality(K) - 1) * stride < Cardinality(A))

Reconstructs ==
    (/\ t = T /\ hist[1] = "cos" /\ win = "none" /\ stride = 1 /\ mode = "continuous" /\ q \in {1, 3}
     /\ T % 4 = 0 /\ \A s \in 0..(T - 1) : base[s])
    => stn = CScale(Den, << (IF inv THEN -Amp ELSE Amp), 0 >>)

\* Re(E x conj(H)) does not change when all six phasors are rotated by a common phase (i here)
ASSUME FluxPhaseInvariant ==
    \A e \in { << 2, 1 >>, << -1, 3 >> }, h \in { << 1, -2 >>, << 0, 5 >> }, a \in 0..2 :
        LET P == << e, CScale(2, e), << 1, 1 >>, h, << 3, 0 >>, CConj(h) >>
            R == [ c \in 1..6 |-> CMul(<< 0, 1 >>, P[c]) ]
        IN  PoyntingRe(P, a) = PoyntingRe(R, a)
=======================================================================
