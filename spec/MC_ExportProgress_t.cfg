SPECIFICATION Spec
CONSTANTS MaxStart = 120  MaxLen = 230  Variant = "doc"
INVARIANT InRange
INVARIANT Monotone
INVARIANT CountIsSteps
INVARIANT AtMostTwenty
INVARIANT ClosedForm
INVARIANT FinalIsTotal
INVARIANT NiceMinimal
CHECK_DEADLOCK FALSE
