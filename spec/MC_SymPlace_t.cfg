SPECIFICATION Spec
CONSTANTS MaxN = 8  SmallNs = {2, 3, 4}  Variant = "code"
INVARIANT TypeOK
INVARIANT EvenRequired
INVARIANT UpperHalfKept
INVARIANT ClippedToHalf
INVARIANT UnclippedShifted
INVARIANT WallsOnElectricPlanes
CHECK_DEADLOCK FALSE
