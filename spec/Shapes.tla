---------------------------- MODULE Shapes ----------------------------
(* C43 - shapes are rasterised by cell-centre inclusion.

   Sphere/Cylinder/ExtrudedPolygon.get_voxel_mask_for_shape as a machine.  A scene is a rectilinear lattice
   (integer cell widths per axis), the object's placed box (an edge-index interval per axis: fdtdx's
   grid_slice_tuple) and a shape (ellipsoid radii / cylinder axis+radii / polygon axis+vertices, optionally
   shifted off the middle of the box by a quarter unit - fdtdx itself always centres the shape in the box).

     Rasterise == the code's computation: LOCAL cell centres 0.5*(e[lo:hi] + e[lo+1:hi+1]) - e[lo], shape
                  centre 0.5*real_shape, mask = strict test on (local centre - shape centre)
     Grow(a)   == the same scene with a larger radius on axis a, rasterised again
     Mirror(a) == the mirror image of the scene along axis a (lattice, box, shape), rasterised again

   Properties: the mask is exactly the set of cells whose ABSOLUTE centre lies strictly inside the analytic
   shape (MaskIsInclusion; polygon centres exactly on an edge are don't-care), mirror-symmetric scenes give
   mirror-symmetric masks (SymmetricMask) and mirroring a scene mirrors the mask (MirrorEquivariant), the mask
   is monotone in every radius (Monotone), extruded shapes do not depend on the extrusion coordinate
   (Extruded), boundary centres are never marked for ellipsoids/cylinders (BoundaryExcluded).

   Variant selects the rule: "strict" is the rule, "nonstrict" (`<=`), "corner" (cell corner sampled
   instead of the cell centre) and "z_from_y" (an omitted z radius of an ellipsoid falls back to the y radius
   instead of the default radius) are the negative instances.                                             *)
EXTENDS ShapesDefs, TLC

CONSTANTS Size,      \* "q" | "t" : bounds of the enumeration
          Variant    \* "strict" | "nonstrict" | "corner" | "z_from_y"

\* ---------- bounds ----------
Seqs(S, n) == [1..n -> S]
WX == IF Size = "t" THEN Seqs({1, 2, 3}, 3) \cup { << 1, 2, 2, 1 >>, << 3, 1, 2, 1 >>, << 2, 2 >> }
      ELSE { << 2, 2, 2 >>, << 1, 2, 1 >>, << 3, 1, 2 >>, << 1, 1, 2 >>, << 1, 2, 2, 1 >> }
WY == IF Size = "t" THEN { << 1, 2, 1 >>, << 2, 1, 3 >>, << 2, 2 >> } ELSE { << 1, 2, 1 >>, << 2, 2 >> }
WZ == { << 2, 1 >> }
\* radii in quarter units: 1, 1.25, 1.5, 2, 2.5, 3
Radii    == IF Size = "t" THEN {4, 5, 6, 8, 10, 12} ELSE {4, 6, 8, 10}
\* ellipsoids: default radius x per-axis radius given (a value different from the default) or omitted (0): all 8 subsets
EllRad   == IF Size = "t" THEN {4, 6, 10} ELSE {4, 8}
EllGiven == IF Size = "t" THEN {0, 5, 8} \X {0, 5, 8} \X {0, 5, 8} ELSE {0, 6} \X {0, 6} \X {0, 6}
\* shape centre off the box middle by a quarter unit (x only); Mirror produces the negative offsets
Offs  == {0, 1}

Polys == <<
    << << -4, -4 >>, << 4, -4 >>, << 4, 4 >>, << -4, 4 >> >>,                                   \* square, vertices may sit on cell centres
    << << -6, -4 >>, << 6, -4 >>, << 0, 6 >> >>,                                                \* triangle
    << << -6, -6 >>, << 6, -6 >>, << 6, 6 >>, << 0, 0 >>, << -6, 6 >> >>,                       \* concave, reflex vertex on the centre
    << << 0, -6 >>, << 6, 0 >>, << 0, 6 >>, << -6, 0 >> >>,                                     \* diamond: edges through lattice points
    << << -6, -6 >>, << 6, -6 >>, << 6, 6 >>, << 2, 6 >>, << 2, -2 >>, << -2, -2 >>, << -2, 6 >>, << -6, 6 >> >>,   \* U
    << << -6, -4 >>, << 6, 4 >>, << 6, -4 >>, << -6, 4 >> >>,                                   \* bow-tie (self-intersecting: even-odd)
    << << -5, -3 >>, << -5, 3 >>, << 5, 3 >>, << 5, -3 >>, << -5, -3 >> >>,                     \* clockwise, first vertex repeated
    << << -6, -2 >>, << 2, -6 >>, << 6, 3 >>, << -3, 5 >> >> >>                                 \* asymmetric quadrilateral
NoPoly == << >>

RECURSIVE PSum(_, _)
PSum(w, k) == IF k = 0 THEN 0 ELSE PSum(w, k - 1) + w[k]
Edges(w) == [ i \in 1..(Len(w) + 1) |-> PSum(w, i - 1) ]
FullBox(w) == << 1, Len(w) + 1 >>
SubBoxes(w) == { b \in (1..Len(w)) \X (2..(Len(w) + 1)) : b[2] - b[1] >= 2 /\ (Len(w) # 3 \/ b = FullBox(w)) }

\* q = the radii of the ANALYTIC shape; for ellipsoids they follow from (rad, opt) by the defaulting rule
Shape(k, q, ax, p, o) == [ kind |-> k, q |-> q, axis |-> ax, poly |-> p, off |-> << o, 0, 0 >>, rad |-> q[1], opt |-> << 0, 0, 0 >> ]
EllShape(r, g, o) == [ Shape("ell", EffRadii(r, g, "rule"), 1, NoPoly, o) EXCEPT !.rad = r, !.opt = g ]
Shapes0 == { EllShape(r, g, o) : r \in EllRad, g \in EllGiven, o \in Offs }
      \cup { Shape("cyl", << r, r, r >>, ax, NoPoly, o) : r \in Radii, ax \in 1..3, o \in Offs }
      \cup { Shape("cyl", << 4, 6, 10 >>, ax, NoPoly, 0) : ax \in 1..3 }                        \* elliptic cross-sections
      \cup { Shape("poly", << 4, 4, 4 >>, ax, Polys[p], 0) : p \in 1..Len(Polys), ax \in 1..3 }
      \cup { Shape("poly", << 4, 4, 4 >>, ax, Polys[p], 1) : p \in 1..Len(Polys), ax \in IF Size = "t" THEN 1..3 ELSE {3} }

VARIABLES E,      \* lattice: cell edges per axis (Edges of the chosen widths)
          box,    \* placed box: << lo, hi >> edge indices per axis (cells lo .. hi-1)
          sh,     \* the shape
          mask,   \* set of marked cells, LOCAL indices << i, j, k >> (1-based inside the box)
          pc      \* "new" -> "done" (rasterised) -> "grown" | "mirrored" (a second scene derived from the first, rasterised again)
vars == << E, box, sh, mask, pc >>

\* ---------- the code's computation ----------
BoxCells(b) == (1..(b[1][2] - b[1][1])) \X (1..(b[2][2] - b[2][1])) \X (1..(b[3][2] - b[3][1]))
\* local sample point of cell i of the box on one axis, relative to the box's lower edge
LocalSample(e, lo, i) == IF Variant = "corner" THEN Corner4(e, lo + i - 1) - 4 * e[lo]
                         ELSE Centre4(e, lo + i - 1) - 4 * e[lo]
LocalMid(e, lo, hi) == 2 * (e[hi] - e[lo])                      \* 0.5 * real_shape
LocalD(EE, b, s, c) == [ a \in 1..3 |-> LocalSample(EE[a], b[a][1], c[a]) - (LocalMid(EE[a], b[a][1], b[a][2]) + s.off[a]) ]
\* the radii the code uses: Sphere.get_voxel_mask_for_shape resolves radius_x/_y/_z against radius itself
Coded(s) == IF s.kind = "ell" THEN [ s EXCEPT !.q = EffRadii(s.rad, s.opt, Variant) ] ELSE s
Raster(EE, b, s0) == LET s == Coded(s0) IN
    { c \in BoxCells(b) : IF Variant = "nonstrict" THEN Closed(s, LocalD(EE, b, s, c)) ELSE Strictly(s, LocalD(EE, b, s, c)) }

\* ---------- the property's words: absolute cell centre vs. analytic shape ----------
AbsD(EE, b, s, c) == [ a \in 1..3 |-> Centre4(EE[a], b[a][1] + c[a] - 1) - (Mid4(EE[a], b[a][1], b[a][2]) + s.off[a]) ]

Init == /\ \E w \in WX \X WY \X WZ :
             /\ E = << Edges(w[1]), Edges(w[2]), Edges(w[3]) >>
             /\ box \in { << bx, FullBox(w[2]), FullBox(w[3]) >> : bx \in SubBoxes(w[1]) }
        /\ sh \in Shapes0
        /\ mask = {} /\ pc = "new"

Rasterise ==
    /\ pc = "new"
    /\ mask' = Raster(E, box, sh)
    /\ pc' = "done"
    /\ UNCHANGED << E, box, sh >>

Growable(a) == sh.kind = "ell" \/ (sh.kind = "cyl" /\ a # sh.axis)
Grow(a) ==
    /\ pc = "done" /\ Growable(a)
    /\ \E r \in Radii : /\ r > sh.q[a]
                        /\ sh' = IF sh.kind = "ell" THEN [ sh EXCEPT !.q[a] = r, !.opt[a] = r ]      \* the axis radius is now given explicitly
                                  ELSE [ sh EXCEPT !.q[a] = r ]
                        /\ mask' = Raster(E, box, sh')
    /\ pc' = "grown"
    /\ UNCHANGED << E, box >>

MirrorBox(b, n) == << n + 2 - b[2], n + 2 - b[1] >>            \* n cells, edges 1..n+1
MirrorEdges(e) == [ i \in 1..Len(e) |-> e[Len(e)] - e[Len(e) + 1 - i] ]
MirrorShape(s, a) ==
    LET t == Transverse(s.axis) IN
    [ s EXCEPT !.off[a] = -s.off[a],
               !.poly = IF s.kind = "poly" /\ a # s.axis THEN MirrorPoly(s.poly, IF a = t[1] THEN 1 ELSE 2) ELSE s.poly ]
MirrorCell(c, b, a) == [ c EXCEPT ![a] = (b[a][2] - b[a][1]) + 1 - c[a] ]
Mirror(a) ==
    /\ pc = "done"
    /\ E' = [ E EXCEPT ![a] = MirrorEdges(E[a]) ]
    /\ box' = [ box EXCEPT ![a] = MirrorBox(box[a], Len(E[a]) - 1) ]
    /\ sh' = MirrorShape(sh, a)
    /\ mask' = Raster(E', box', sh')
    /\ pc' = "mirrored"

Next == Rasterise \/ \E a \in 1..3 : Grow(a) \/ Mirror(a)
Spec == Init /\ [][Next]_vars

\* ---------- properties ----------
TypeOK == pc \in {"new", "done", "grown", "mirrored"} /\ mask \subseteq BoxCells(box)
\* C43 main clause
MaskIsInclusion == pc # "new" =>
    \A c \in BoxCells(box) : LET d == AbsD(E, box, sh, c) IN
        \/ sh.kind = "poly" /\ OnBoundary(sh, d)                      \* centre exactly on a polygon edge: don't-care
        \/ (c \in mask <=> Strictly(sh, d))
\* the analytic radii of an ellipsoid are the given per-axis radii, the default radius where omitted
RadiiByRule == sh.kind = "ell" => sh.q = EffRadii(sh.rad, sh.opt, "rule")
\* centres exactly on the surface of an ellipsoid / cylinder are not marked
BoundaryExcluded == pc # "new" /\ sh.kind # "poly" => \A c \in mask : ~OnBoundary(sh, AbsD(E, box, sh, c))
BoxWidths(a) == [ i \in 1..(box[a][2] - box[a][1]) |-> E[a][box[a][1] + i] - E[a][box[a][1] + i - 1] ]
ShapeSymmetric(a) ==
    /\ sh.off[a] = 0
    /\ sh.kind = "poly" /\ a # sh.axis => PolySymmetric(sh.poly, IF a = Transverse(sh.axis)[1] THEN 1 ELSE 2)
SymmetricMask == pc # "new" =>
    \A a \in 1..3 : Palindrome(BoxWidths(a)) /\ ShapeSymmetric(a) => \A c \in BoxCells(box) : (c \in mask <=> MirrorCell(c, box, a) \in mask)
Extruded == pc # "new" /\ sh.kind # "ell" =>
    \A c \in mask : \A i \in 1..(box[sh.axis][2] - box[sh.axis][1]) : [ c EXCEPT ![sh.axis] = i ] \in mask
\* only Grow changes a radius; a Mirror(a) step is recognised by what it does to lattice, box and shape
Monotone == [][ pc' = "grown" => mask \subseteq mask' ]_vars
IsMirrorStep(a) == /\ pc' = "mirrored"
                   /\ E' = [ E EXCEPT ![a] = MirrorEdges(E[a]) ]
                   /\ box' = [ box EXCEPT ![a] = MirrorBox(box[a], Len(E[a]) - 1) ]
                   /\ sh' = MirrorShape(sh, a)
MirrorEquivariant == [][ \A a \in 1..3 : IsMirrorStep(a) => mask' = { MirrorCell(c, box, a) : c \in mask } ]_vars
\* anti-vacuity witnesses used once by hand (see notes/C43.md): some mask is neither empty nor the full box
========================================================================
