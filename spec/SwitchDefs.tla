---------------------------- MODULE SwitchDefs ----------------------------
(* The on/off time-window rule of fdtdx (core/switch.py) in exact integer arithmetic.
   Time unit: 1 tick = 1/4 of the time step duration (DT = 4 ticks), so that times given in half steps and
   period counts given in halves stay integers.  A switch is a record
     [off, fixed, st, sap, et, eap, oft, ofp, period, interval]
   with None (= -999) for "not given"; sap/eap/ofp are in HALF periods; fixed is a sequence of step indices
   or << None >> for "no fixed list".                                                                    *)
EXTENDS Integers, Sequences, FiniteSets, TLC

None == -999
Inf  == 1000000
DT   == 4

B2N(b) == IF b THEN 1 ELSE 0
HasFixed(p) == ~(Len(p.fixed) = 1 /\ p.fixed[1] = None)

StartSpecs(p) == B2N(p.st # None) + B2N(p.sap # None)
               + B2N(p.oft # None /\ p.et # None) + B2N(p.ofp # None /\ p.et # None)
               + B2N(p.oft # None /\ p.eap # None) + B2N(p.ofp # None /\ p.eap # None)
St1(p) == IF StartSpecs(p) = 0 THEN 0 ELSE p.st                 \* default start 0 is assigned BEFORE counting end specs
EndSpecs(p) == B2N(p.et # None) + B2N(p.eap # None)
             + B2N(p.oft # None /\ St1(p) # None) + B2N(p.ofp # None /\ St1(p) # None)
             + B2N(p.oft # None /\ p.sap # None) + B2N(p.ofp # None /\ p.sap # None)
NeedPeriod(p) == (p.sap # None \/ p.eap # None \/ p.ofp # None) /\ p.period = None
Invalid(p) == NeedPeriod(p) \/ StartSpecs(p) > 1 \/ EndSpecs(p) > 1

Et1(p) == IF EndSpecs(p) = 0 THEN Inf ELSE p.et
St2(p) == IF p.sap # None THEN (p.sap * p.period) \div 2 ELSE St1(p)
Et2(p) == IF p.eap # None THEN (p.eap * p.period) \div 2 ELSE Et1(p)
Of2(p) == IF p.ofp # None THEN (p.ofp * p.period) \div 2 ELSE p.oft
St3(p) == IF St2(p) = None /\ Of2(p) # None THEN Et2(p) - Of2(p) ELSE St2(p)
Et3(p) == IF Et2(p) = None /\ Of2(p) # None THEN St3(p) + Of2(p) ELSE Et2(p)

\* EndRule: "inclusive" (the documented rule: start <= t*dt <= end) or "exclusive" (negative instance)
InWindow(p, t, endRule) == /\ St3(p) <= t * DT
                           /\ IF endRule = "inclusive" THEN t * DT <= Et3(p) ELSE t * DT < Et3(p)

IsOn(p, t, endRule) ==
    IF HasFixed(p) THEN \E i \in 1..Len(p.fixed) : p.fixed[i] = t
    ELSE IF p.off THEN FALSE
    ELSE InWindow(p, t, endRule) /\ t % p.interval = 0

OnTimes(p, T, endRule) == { t \in 0..(T - 1) : IsOn(p, t, endRule) }
\* slot of an active step = number of active steps before it; -1 for inactive steps
SlotOf(p, T, t, endRule) == IF IsOn(p, t, endRule) THEN Cardinality({ u \in OnTimes(p, T, endRule) : u < t }) ELSE -1
\* the i-th (1-based) active step
NthOn(p, T, i, endRule) == CHOOSE t \in OnTimes(p, T, endRule) : Cardinality({ u \in OnTimes(p, T, endRule) : u < t }) = i - 1
============================================================================
