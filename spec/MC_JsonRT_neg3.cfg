SPECIFICATION Spec
CONSTANTS Variant = "reject_derived"
INVARIANT TypeOK
INVARIANT RoundTrip
INVARIANT ConstraintsIdentical
INVARIANT PrivateUnsetBeforePlacement
INVARIANT DerivedRecomputed
CHECK_DEADLOCK FALSE
