SPECIFICATION Spec
CONSTANTS MaxDepth = 3  MaxUpdates = 2  Mode = "obj_deep"  ShareSet = {TRUE, FALSE}  NegIdx = TRUE  Rich = FALSE  CreateNew = TRUE
INVARIANT TypeOK
INVARIANT Persistent
INVARIANT PathOnly
INVARIANT TypeKept
INVARIANT ValueUntouched
INVARIANT ResultFresh
INVARIANT SpineOnly
INVARIANT NewSlotAdded
INVARIANT ChildrenOlder
PROPERTY AppendOnly
CHECK_DEADLOCK FALSE
