---------------------------- MODULE Unfold ----------------------------
(* Symmetry unfolding of fdtdx (fdtd/symmetry.py: unfold_fields, unfold_array, unfold_detector_states;
   core/physics/symmetry.py: field_component_parity, mirror_pairs_on_plane, mirror_extend_low_side)
   as a state machine shaped like the code: the loop `for a in range(3)` extends the array along one
   symmetric axis per step by prepending the low block built from the kept half.

   Property C32 (invariants below, stated on the finished AND every intermediate array):
     UpperIsOriginal   keeping the upper half of the unfolded array returns the reduced array
     MirrorParity      every sample and its mirror partner differ by the documented parity;
                       partner index = 2n - i on an electric plane for samples lying on it, 2n-1-i otherwise
     ClosedForm        the array equals the declarative closed form  prod sign_a * x[src_a(i_a)]
     FillRepeats       the partner-less outermost on-plane sample repeats its neighbour
     ReduceCommutes    (no sample on a plane)  weighted-sum(unfolded) = prod(1+parity) * weighted-sum(kept),
                       total weight doubles per axis: so unfolding the reduced value (x factor) commutes
                       with reducing the unfolded record, for sums and means, on mirror-symmetric
                       (also non-uniform) cell weights
   plus the table lemmas PecPmcTable, PoyntingIsPolar.

   The array carries injective non-zero labels, so the index map and signs are determined exactly;
   the map is linear and acts per sample, so labelled arrays decide it for all arrays.            *)
EXTENDS UnfoldDefs, TLC

CONSTANTS MaxN,        \* max kept samples per axis
          Variant,     \* "doc" | "plain_flip_on_plane" (negative) | "pmc_pairs_on_plane" (negative) | "parity_ignores_wall" (negative)
          SubsetMode   \* "few" | "all" : which component subsets of Field/Phasor detectors are enumerated

VARIABLES sym, n0, kind, comps, exact, orig, arr, shp, ax
vars == << sym, n0, kind, comps, exact, orig, arr, shp, ax >>

NC == Len(comps)
Idx(nc, s) == (1..nc) \X (0..(s[1] - 1)) \X (0..(s[2] - 1)) \X (0..(s[3] - 1))
\* arrays are nested functions arr[c][i][j][k] (integer-interval domains: constant-time lookup in TLC)
Get(A, p) == A[p[1]][p[2]][p[3]][p[4]]
Mk(nc, s, F(_)) == [ c \in 1..nc |-> [ i \in 0..(s[1] - 1) |-> [ j \in 0..(s[2] - 1) |-> [ k \in 0..(s[3] - 1) |-> F(<< c, i, j, k >>) ] ] ] ]
ShapeOf(A) == << Cardinality(DOMAIN A[1]), Cardinality(DOMAIN A[1][0]), Cardinality(DOMAIN A[1][0][0]) >>
Label(p) == p[1] + 6 * (p[2] + MaxN * (p[3] + MaxN * p[4]))          \* injective, > 0

\* what the implementation uses (Variant injects the deliberately wrong tables)
ImplParity(comp, a, wall) ==
    IF Variant = "parity_ignores_wall" THEN CompParity(comp, a, -1) ELSE CompParity(comp, a, wall)
ImplOnPlane(comp, a, wall) ==
    IF Variant = "pmc_pairs_on_plane" THEN OnPlane(kind, comp, a, -1, exact) ELSE OnPlane(kind, comp, a, wall, exact)

DetSubsets ==
    IF SubsetMode = "all" THEN (SUBSET FieldCompSet) \ { {} }
    ELSE { FieldCompSet, {"Ey", "Hz"} }
Kinds ==   { [ k |-> "field", c |-> <<"Ex", "Ey", "Ez">>, e |-> FALSE ],
             [ k |-> "field", c |-> <<"Hx", "Hy", "Hz">>, e |-> FALSE ] }
      \cup { [ k |-> "det", c |-> Stored(S), e |-> e ] : S \in DetSubsets, e \in BOOLEAN }
      \cup { [ k |-> "det", c |-> <<"W">>, e |-> e ] : e \in BOOLEAN }
      \cup { [ k |-> "det", c |-> FluxComps, e |-> e ] : e \in BOOLEAN }
      \cup { [ k |-> "det", c |-> << FluxComps[i] >>, e |-> e ] : i \in 1..3, e \in BOOLEAN }

Init == /\ sym \in { s \in {-1, 0, 1} \X {-1, 0, 1} \X {-1, 0, 1} : s # <<0, 0, 0>> }
        /\ n0 \in (1..MaxN) \X (1..MaxN) \X (1..MaxN)
        /\ \E kd \in Kinds : kind = kd.k /\ comps = kd.c /\ exact = kd.e
        /\ orig = << >> /\ arr = << >> /\ shp = n0 /\ ax = -1

\* the reduced array handed to the unfold helper (kept out of Init so that TLC builds and checks it in parallel)
Load == /\ ax = -1
        /\ orig' = Mk(NC, n0, Label)
        /\ arr' = orig' /\ ax' = 0
        /\ UNCHANGED << sym, n0, kind, comps, exact, shp >>

\* one iteration of `for a in range(3)`: concatenate([low, arr], axis=a)
UnfoldAxis ==
    /\ ax >= 0 /\ ax < 3
    /\ LET a == ax  wall == sym[a + 1]  n == shp[a + 1] IN
       IF wall = 0 THEN UNCHANGED << arr, shp >>
       ELSE LET nshp == [ shp EXCEPT ![a + 1] = 2 * n ] IN
            /\ shp' = nshp
            /\ LET Cell(p) ==
                      IF p[a + 2] >= n THEN Get(arr, [ p EXCEPT ![a + 2] = p[a + 2] - n ])
                      ELSE LET line == [ t \in 0..(n - 1) |-> Get(arr, [ p EXCEPT ![a + 2] = t ]) ]
                               c == comps[p[1]]
                           IN  LowBlock(line, n, ImplParity(c, a, wall), ImplOnPlane(c, a, wall), Variant)[p[a + 2]]
               IN arr' = Mk(NC, nshp, Cell)
    /\ ax' = ax + 1
    /\ UNCHANGED << sym, n0, kind, comps, exact, orig >>

Next == Load \/ UnfoldAxis
Spec == Init /\ [][Next]_vars

\* ---------------------------------------------------------------- properties (documented rule only)
Done(a) == a < ax /\ sym[a + 1] # 0            \* axis a has been unfolded
On(c, a) == OnPlane(kind, comps[c], a, sym[a + 1], exact)
Par(c, a) == CompParity(comps[c], a, sym[a + 1])

Loaded == ax >= 0
TypeOK == Loaded =>
          /\ ax \in 0..3
          /\ shp = [ a \in 1..3 |-> IF Done(a - 1) THEN 2 * n0[a] ELSE n0[a] ]      \* each symmetric axis doubled
          /\ DOMAIN arr = 1..NC /\ ShapeOf(arr) = shp

UpperIsOriginal == Loaded =>
    \A p \in Idx(NC, n0) :
        Get(arr, << p[1], p[2] + (IF Done(0) THEN n0[1] ELSE 0), p[3] + (IF Done(1) THEN n0[2] ELSE 0),
                     p[4] + (IF Done(2) THEN n0[3] ELSE 0) >>) = Get(orig, p)

MirrorParity == Loaded =>
    \A a \in Axes : Done(a) =>
        \A p \in Idx(NC, shp) :
            LET n == n0[a + 1]  i == p[a + 2]  on == On(p[1], a) IN
            HasPartner(n, on, i) => Get(arr, [ p EXCEPT ![a + 2] = MirrorIdx(n, on, i) ]) = Par(p[1], a) * Get(arr, p)

SrcA(p, a) == IF Done(a) THEN Src(n0[a + 1], On(p[1], a), Par(p[1], a), p[a + 2]) ELSE << p[a + 2], 1 >>
ClosedForm == Loaded =>
    \A p \in Idx(NC, shp) :
        LET s0 == SrcA(p, 0)  s1 == SrcA(p, 1)  s2 == SrcA(p, 2)
        IN  Get(arr, p) = s0[2] * s1[2] * s2[2] * Get(orig, << p[1], s0[1], s1[1], s2[1] >>)

FillRepeats == Loaded =>
    \A a \in Axes : Done(a) /\ n0[a + 1] >= 2 =>
        \A p \in Idx(NC, shp) : (On(p[1], a) /\ p[a + 2] = 0) => Get(arr, p) = Get(arr, [ p EXCEPT ![a + 2] = 1 ])

\* --- reductions: mirror-symmetric, possibly non-uniform cell widths (cells always mirror one-to-one)
KeptWidth(a, k) == 1 + ((k + a) % 3)
FullWidth(a, i) == IF ~Done(a) THEN KeptWidth(a, i)
                   ELSE IF i >= n0[a + 1] THEN KeptWidth(a, i - n0[a + 1]) ELSE KeptWidth(a, n0[a + 1] - 1 - i)
RECURSIVE SumTo(_, _)
SumTo(f, n) == IF n < 0 THEN 0 ELSE f[n] + SumTo(f, n - 1)            \* f[0] + ... + f[n]
Sum3(s, g) == SumTo([ i \in 0..(s[1] - 1) |-> SumTo([ j \in 0..(s[2] - 1) |-> SumTo([ k \in 0..(s[3] - 1) |-> g[<< i, j, k >>] ], s[3] - 1) ], s[2] - 1) ], s[1] - 1)
Cells(s) == (0..(s[1] - 1)) \X (0..(s[2] - 1)) \X (0..(s[3] - 1))
VolFull == [ q \in Cells(shp) |-> FullWidth(0, q[1]) * FullWidth(1, q[2]) * FullWidth(2, q[3]) ]
VolKept == [ q \in Cells(n0) |-> KeptWidth(0, q[1]) * KeptWidth(1, q[2]) * KeptWidth(2, q[3]) ]
WSumFull(c) == Sum3(shp, [ q \in Cells(shp) |-> VolFull[q] * arr[c][q[1]][q[2]][q[3]] ])
WSumKept(c) == Sum3(n0, [ q \in Cells(n0) |-> VolKept[q] * orig[c][q[1]][q[2]][q[3]] ])
WTotFull == Sum3(shp, VolFull)
WTotKept == Sum3(n0, VolKept)
\* exact rationals <<num, den>>, den > 0, normalised by gcd so that products stay far below 2^31
RECURSIVE Gcd(_, _)
Gcd(a, b) == IF b = 0 THEN a ELSE Gcd(b, a % b)
Abs(x) == IF x < 0 THEN -x ELSE x
Norm(r) == LET g == Gcd(Abs(r[1]), r[2]) IN << r[1] \div g, r[2] \div g >>
RatMul(r, s) == Norm(<< r[1] * s[1], r[2] * s[2] >>)
RatEq(r, s) == r[1] * s[2] = s[1] * r[2]
TouchedNow == [ a \in 1..3 |-> IF Done(a - 1) THEN sym[a] ELSE 0 ]
NoSampleOnPlane == \A a \in Axes, c \in 1..NC : Done(a) => ~On(c, a)

\* AssertOnPlaneToo = TRUE drops the precondition (second negative instance: the rule is NOT claimed there)
CONSTANT AssertOnPlaneToo
ReduceCommutes ==
    (Loaded /\ (NoSampleOnPlane \/ AssertOnPlaneToo)) =>
        /\ WTotFull = Pow2(Count(TouchedNow)) * WTotKept
        /\ \A c \in 1..NC :
              LET fs == ReduceFactor(comps[c], TouchedNow, FALSE)  fm == ReduceFactor(comps[c], TouchedNow, TRUE) IN
              /\ WSumFull(c) * fs[2] = fs[1] * WSumKept(c)                                   \* sum reduction
              /\ RatEq(Norm(<< WSumFull(c), WTotFull >>), RatMul(fm, Norm(<< WSumKept(c), WTotKept >>)))   \* mean reduction

\* --- table lemmas (independent of the run)
ASSUME PecPmcTable ==
    \A a \in Axes, c \in Axes :
        /\ Parity("E", c, a, -1) = (IF c = a THEN 1 ELSE -1)      \* PEC: tangential E odd (vanishes on the plane)
        /\ Parity("H", c, a, -1) = (IF c = a THEN -1 ELSE 1)      \*      normal H odd
        /\ Parity("E", c, a, 1) = (IF c = a THEN -1 ELSE 1)       \* PMC: normal E odd
        /\ Parity("H", c, a, 1) = (IF c = a THEN 1 ELSE -1)       \*      tangential H odd
        \* a component that lies on an electric plane and is odd must vanish there: those are exactly tangential E, normal H
        /\ (YeeOffset("E", c, a) = 0 <=> Parity("E", c, a, -1) = -1)
        /\ (YeeOffset("H", c, a) = 0 <=> Parity("H", c, a, -1) = -1)
ASSUME PoyntingIsPolar ==
    \A i \in Axes, a \in Axes, w \in Walls : PoyntingParity(i, a, w) = ReflSign("S", i, a)
=======================================================================
