-------------------------- MODULE Trace_Schedule --------------------------
(* Validates executions of the REAL time loop (run_fdtd / custom_fdtd_forward / jax.vjp of them, observed
   through the FDTDX_VERIF step hooks in forward(), backward() and the checkpoint select) against
   Schedule.tla.  One record = one scenario on one scene: a sequence of runs, each bracketed by the harness
   markers run_start / run_end (and grad_end after the VJP).  Every hook event is consumed by the
   corresponding Schedule action (guard checked, effect applied); Reset / PartialStart / Capture /
   StartReverse are silent steps bounded by the next logged event.  Verdicts are total: the first failing
   clause is kept in `bad`, the spec state is re-synchronised to the implementation and the rest of the trace
   is still examined.  Used by C04 (reverse schedule + gradient agreement), C05 (same primal run for every
   gradient strategy) and C06 (state depends only on the steps executed).

   Every event carries the same keys: ev t a b rs rd rb s taken method K kind fpE fpH fpD gerr.
   Fingerprints are integers scaled by the harness to 1e8 * (value / max |value| in the record).        *)
EXTENDS Schedule, Json, IOUtils, TLCExt

Cases == JsonDeserialize(IOEnv.TRACE_FILE)

VARIABLES ci, l, bad, pending,
          seen,       \* sequence of [n, fpE, fpH, fpD]: state fingerprint of a returned run that executed 0..n-1
          primfp      \* primfp[u+1] = <<fpE, fpH>> after primal forward(u) of the current full run
tvars == << ci, l, bad, pending, seen, primfp >>
allvars == << vars, tvars >>

C == Cases[ci]
E == C.events[l]
Note(cl) == IF bad = "" THEN cl ELSE bad
Near(x, y, tol) == x - y <= tol /\ y - x <= tol

TInit == /\ ci = 1 /\ l = 1 /\ bad = "" /\ pending = "" /\ seen = << >> /\ primfp = << >>
         /\ T = IF Len(Cases) >= 1 THEN Cases[1].T ELSE 1
         /\ K = 0 /\ method = "none" /\ phase = "idle" /\ pc = "sel" /\ t = 0 /\ seg = 0 /\ hi = 0
         /\ ckpts = {} /\ executed = << >> /\ vjps = << >> /\ drift = 0 /\ full = FALSE
         /\ TLCSet(1, << >>)

\* ---- run_start marker: set the run parameters, then (silent) Reset or PartialStart ----
RunStartEv ==
    /\ E.ev = "run_start" /\ pending = ""
    /\ T' = C.T /\ K' = E.K /\ method' = E.method
    /\ pending' = E.kind
    /\ bad' = IF phase \in {"idle", "returned", "done"} THEN bad ELSE Note("malformed: run_start inside a run")
    /\ phase' = IF phase \in {"idle", "returned", "done"} THEN phase ELSE "idle"
    /\ UNCHANGED << pc, t, seg, hi, ckpts, executed, vjps, drift, full, ci, l, seen, primfp >>

DoStart ==
    /\ pending # ""
    /\ IF pending = "full"
       THEN ResetE /\ bad' = bad
       ELSE /\ PartialStartE(E.a, E.b, E.rs)
            /\ bad' = IF PartialStartG(E.a, E.b, E.rs) THEN bad
                      ELSE Note("malformed: partial run is not a consecutive continuation")
    /\ pending' = "" /\ l' = l + 1 /\ primfp' = << >>
    /\ UNCHANGED << ci, seen >>

\* ---- primal phase ----
SilentCapture ==
    /\ pending = "" /\ E.ev \in {"fwd", "run_end"} /\ CaptureG
    /\ CaptureE /\ UNCHANGED tvars

FwdEv ==
    /\ pending = "" /\ E.ev = "fwd" /\ phase \in {"primal", "partial"} /\ ~CaptureG
    /\ LET ok      == FwdStepG /\ E.t = t
           flagsOK == E.rb = (phase = "primal" /\ method = "reversible")
       IN /\ IF ok THEN FwdStepE
                   ELSE /\ executed' = Append(executed, E.t) /\ t' = E.t + 1
                        /\ UNCHANGED << T, K, method, phase, pc, seg, hi, ckpts, vjps, drift, full >>
          /\ bad' = IF ~ok THEN Note("primal: forward step out of order or beyond the loop bound")
                    ELSE IF ~flagsOK THEN Note("primal: boundary recording flag does not match the gradient method")
                    ELSE bad
    /\ primfp' = IF phase = "primal" THEN Append(primfp, << E.fpE, E.fpH >>) ELSE primfp
    /\ l' = l + 1 /\ UNCHANGED << ci, pending, seen >>

SeenFor(n) == { i \in 1..Len(seen) : seen[i].n = n }
RunEndEv ==
    /\ pending = "" /\ E.ev = "run_end" /\ phase \in {"primal", "partial"} /\ ~CaptureG
    /\ LET ok   == (ReturnG \/ PartialReturnG) /\ E.t = t
           n    == Len(executed)
           pure == executed = Range(0, n)
           same == \A i \in SeenFor(n) : /\ Near(seen[i].fpE, E.fpE, C.tol) /\ Near(seen[i].fpH, E.fpH, C.tol)
                                         /\ Near(seen[i].fpD, E.fpD, C.tol)
       IN /\ bad' = IF ~ok THEN Note("return: run did not end at its last step (wrong final step count)")
                    ELSE IF pure /\ ~same THEN Note("state differs from another run that executed the same steps")
                    ELSE bad
          /\ seen' = IF pure /\ SeenFor(n) = {} THEN Append(seen, [n |-> n, fpE |-> E.fpE, fpH |-> E.fpH, fpD |-> E.fpD])
                     ELSE seen
    /\ ReturnE
    /\ l' = l + 1 /\ UNCHANGED << ci, pending, primfp >>

\* ---- reverse phase (reversible custom VJP) ----
SilentStartReverse ==
    /\ pending = "" /\ E.ev \in {"ckpt", "bwd"} /\ phase = "returned" /\ method = "reversible"
    /\ StartReverseE
    /\ bad' = IF StartReverseG THEN bad ELSE Note("malformed: reverse pass without a completed reversible run")
    /\ UNCHANGED << ci, l, pending, seen, primfp >>

CkptEv ==
    /\ pending = "" /\ E.ev = "ckpt" /\ phase = "reverse"
    /\ bad' = IF ~LoopCond THEN Note("reverse: loop iteration at time 0 (reverse pass runs past t = 0)")
              ELSE IF pc # "sel" \/ E.t # t THEN Note("reverse: checkpoint select at the wrong time")
              ELSE IF E.s \notin CkptTimes(T, NumSlices) THEN Note("reverse: checkpoint time is not an interior slice boundary")
              ELSE IF E.taken # (E.s = t /\ E.s \in ckpts) THEN Note("reverse: wrong checkpoint restore decision")
              ELSE bad
    /\ l' = l + 1 /\ UNCHANGED << vars, ci, pending, seen, primfp >>

BwdEv ==   \* Sel . Bwd
    /\ pending = "" /\ E.ev = "bwd" /\ phase = "reverse"
    /\ LET ok == SelG /\ E.t = t - 1
       IN /\ bad' = IF ~LoopCond THEN Note("reverse: backward step taken at time 0 (reverse pass runs past t = 0)")
                    ELSE IF ~ok THEN Note("reverse: backward step out of order")
                    ELSE bad
          /\ drift' = (IF t \in ckpts THEN 0 ELSE drift) + 1
          /\ t' = E.t /\ pc' = "vjp"
          /\ UNCHANGED << T, K, method, phase, seg, hi, ckpts, executed, vjps, full >>
    /\ l' = l + 1 /\ UNCHANGED << ci, pending, seen, primfp >>

VjpEv ==
    /\ pending = "" /\ E.ev = "fwd" /\ phase = "reverse"
    /\ LET ok   == VjpG /\ E.t = t /\ E.t >= 0
           fpOK == (C.cmp_fp /\ E.t >= 0 /\ E.t + 1 <= Len(primfp))
                      => /\ Near(primfp[E.t + 1][1], E.fpE, C.tol) /\ Near(primfp[E.t + 1][2], E.fpH, C.tol)
       IN /\ bad' = IF ~ok THEN Note("reverse: VJP forward step out of order or at a negative time")
                    ELSE IF E.rb THEN Note("reverse: VJP forward step records boundaries")
                    ELSE IF ~fpOK THEN Note("reverse: reconstructed state differs from the primal state at the same time")
                    ELSE bad
          /\ vjps' = Append(vjps, E.t) /\ pc' = "sel"
          /\ UNCHANGED << T, K, method, phase, t, seg, hi, ckpts, executed, drift, full >>
    /\ l' = l + 1 /\ UNCHANGED << ci, pending, seen, primfp >>

GradEndEv ==
    /\ pending = "" /\ E.ev = "grad_end"
    /\ IF phase = "reverse"
       THEN /\ EndReverseE
            /\ bad' = IF ~EndReverseG THEN Note("reverse: ended before reaching time 0")
                      ELSE IF vjps # Descending(T) THEN Note("reverse: not every forward step linearised exactly once, latest first")
                      ELSE IF E.gerr > C.gtol THEN Note("gradient: reversible gradient differs from checkpointed autodiff")
                      ELSE bad
       ELSE /\ UNCHANGED vars
            /\ bad' = IF phase # "returned" THEN Note("malformed: grad_end outside a finished run")
                      ELSE IF method = "reversible" /\ T > 0 THEN Note("reverse: no reverse pass was executed")
                      ELSE IF E.gerr > C.gtol THEN Note("gradient: differs from checkpointed autodiff")
                      ELSE bad
    /\ l' = l + 1 /\ UNCHANGED << ci, pending, seen, primfp >>

\* recomputation of forward steps by the checkpointing library during autodiff: trusted, only range-checked
RecomputeEv ==
    /\ pending = "" /\ E.ev = "fwd" /\ phase = "returned" /\ method # "reversible"
    /\ bad' = IF E.t < 0 \/ E.t >= T THEN Note("autodiff: recomputed step outside the run") ELSE bad
    /\ l' = l + 1 /\ UNCHANGED << vars, ci, pending, seen, primfp >>

Matches ==
    \/ E.ev = "run_start"
    \/ (E.ev = "fwd" /\ phase \in {"primal", "partial", "reverse"})
    \/ (E.ev = "fwd" /\ phase = "returned" /\ method # "reversible")
    \/ (E.ev = "run_end" /\ phase \in {"primal", "partial"})
    \/ (E.ev \in {"ckpt", "bwd"} /\ (phase = "reverse" \/ (phase = "returned" /\ method = "reversible")))
    \/ E.ev = "grad_end"
Unexpected ==
    /\ pending = "" /\ ~Matches
    /\ bad' = Note("malformed: unexpected event for the current phase")
    /\ l' = l + 1 /\ UNCHANGED << vars, ci, pending, seen, primfp >>

NextCase ==
    /\ TLCSet(1, Append(TLCGet(1), [ id |-> C.id, v |-> IF bad = "" THEN "ok" ELSE bad ]))
    /\ ci' = ci + 1 /\ l' = 1 /\ bad' = "" /\ pending' = "" /\ seen' = << >> /\ primfp' = << >>
    /\ T' = IF ci + 1 <= Len(Cases) THEN Cases[ci + 1].T ELSE 1
    /\ K' = 0 /\ method' = "none" /\ phase' = "idle" /\ pc' = "sel" /\ t' = 0 /\ seg' = 0 /\ hi' = 0
    /\ ckpts' = {} /\ executed' = << >> /\ vjps' = << >> /\ drift' = 0 /\ full' = FALSE

TNext == /\ ci <= Len(Cases)
         /\ IF l > Len(C.events) THEN NextCase
            ELSE \/ RunStartEv \/ DoStart \/ SilentCapture \/ FwdEv \/ RunEndEv \/ SilentStartReverse
                 \/ CkptEv \/ BwdEv \/ VjpEv \/ GradEndEv \/ RecomputeEv \/ Unexpected
TSpec == TInit /\ [][TNext]_allvars

\* the Schedule invariants are also evaluated on the states reconstructed from the implementation's trace
Post == ndJsonSerialize(IOEnv.VERDICT_FILE, TLCGet(1))
=============================================================================
