SPECIFICATION Spec
CONSTANTS MaxN = 2  MaxC = 2  FullN = 1  SampleK = 1  SampleSet = "n"  Variant = "planar"  AssertFaceConnectedSuffices = FALSE
INVARIANT TypeOK
INVARIANT XFastest
INVARIANT RoundTrip
INVARIANT OnLatticeInv
INVARIANT ExposedFacesOnlyInv
INVARIANT TriCount
INVARIANT OrientedInv
INVARIANT WatertightInv
INVARIANT FaceConnectedSuffices
INVARIANT FaceCountRule
CHECK_DEADLOCK FALSE
