SPECIFICATION Spec
CONSTANTS LossPerHit = 4  ChargeFree = TRUE  OpenFace = "max_y"  Transits = 4  StretchApplied = TRUE
INVARIANT QuietAbsorbed
CHECK_DEADLOCK FALSE
