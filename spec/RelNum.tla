------------------------------ MODULE RelNum ------------------------------
(* Number encodings shared by the relational trace specs (Trace_Supercell, Trace_AxisPerm, Trace_SymReduce,
   Trace_GridEquiv, Trace_Shard).

   TLC integers are 32 bit.  An observed float64 value v is sent by the harness as the integer
       n = round(v * scale)            |n| < 10^12
   split into three signed limbs of four decimal digits  <<l2, l1, l0>>,  n = l2*10^8 + l1*10^4 + l0
   (all limbs carry the sign of n).  `scale` is either an exact power of two chosen so that n is exactly the
   float64 value (exact inputs: tolerance 0) or 10^12 / max|v| of the compared arrays (tolerance in units of
   10^-12 of that maximum).  Linear combinations  sum_k m_k * n_k  with small integer multipliers m_k are
   formed limb by limb (no carries needed) and bounded by SmallL3 without ever exceeding 2^31.          *)
EXTENDS Integers, Sequences

Base == 10000
Abs(x) == IF x < 0 THEN -x ELSE x

\* | D2*Base^2 + D1*Base + D0 | <= tolv, evaluated without overflow.  Requires |Di| <= 10^9 and tolv <= 10^8.
\* The limbs of a combination are not normalised (no carries), so D2 and D1 may be large while the total is small;
\* but  |total| <= tolv  implies  |D2| <= 10^5 + 1  and  |D2*Base + D1| <= 10^5,  which bounds every intermediate
\* value below 2^31.
SmallL3(D2, D1, D0, tolv) ==
    /\ Abs(D2) <= 100001
    /\ Abs(D2 * Base + D1) <= 100000
    /\ Abs((D2 * Base + D1) * Base + D0) <= tolv

\* a, b limb triples (sequences of length 3, most significant first): | a - sg*b | <= tolv
NearL3(a, b, sg, tolv) == SmallL3(a[1] - sg * b[1], a[2] - sg * b[2], a[3] - sg * b[3], tolv)

IsL3(a) == /\ Len(a) = 3
           /\ \A i \in 1..3 : Abs(a[i]) < Base
ZeroL3(a) == a[1] = 0 /\ a[2] = 0 /\ a[3] = 0
=============================================================================
