SPECIFICATION Spec
CONSTANTS N = 6  K = 3  Vals <- ValsPM  Amps = { 1, 3 }  Delays = { 0, 2 }  NSteps = 8  Variant = "h_ungated"  Origin = "entry"
INVARIANT OutsideZero
CHECK_DEADLOCK FALSE
