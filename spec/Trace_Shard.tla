-------------------------- MODULE Trace_Shard --------------------------
(* Conformance for Shard: TLC evaluates the equality relation on arrays observed from REAL runs of one scene under
   the compared configurations (see checks/).  A record carries `pairs`: arrays a (reference run) and b (other
   run) of the same quantity (final E, final H, one detector state array), entries as 3-limb integers (RelNum)
   scaled by the harness to 10^12 / max|value| of the two arrays.  Relation: b[i] = a[i] for every entry, up to
   tol units (10 = 1e-11 of the largest value; tol = 0 demands bit-identical results).                       *)
EXTENDS Integers, Sequences, FiniteSets, TLC, TLCExt, Json, IOUtils

R == INSTANCE RelNum
Cases == JsonDeserialize(IOEnv.TRACE_FILE)
VARIABLES ci

PairOK(pr, tol) == \A i \in 1..Len(pr.a) : R!NearL3(pr.b[i], pr.a[i], 1, tol)
NonTrivial(pr) == \E i \in 1..Len(pr.a) : ~R!ZeroL3(pr.a[i])
Verdict(c) ==
    IF \E k \in 1..Len(c.pairs) : Len(c.pairs[k].a) # Len(c.pairs[k].b) THEN "malformed: compared arrays have different sizes"
    ELSE IF ~\E k \in 1..Len(c.pairs) : NonTrivial(c.pairs[k]) THEN "malformed: all observed arrays are zero"
    ELSE LET bad == { k \in 1..Len(c.pairs) : ~PairOK(c.pairs[k], c.tol) }
         IN  IF bad = {} THEN "ok"
             ELSE LET k == CHOOSE k \in bad : \A k2 \in bad : k <= k2
                  IN  "equal: " \o c.pairs[k].what \o " differs between " \o c.pairs[k].ra \o " and " \o c.pairs[k].rb

TInit == ci = 1 /\ TLCSet(1, << >>)
TNext == /\ ci <= Len(Cases)
         /\ LET c == Cases[ci] IN TLCSet(1, Append(TLCGet(1), [ id |-> c.id, v |-> Verdict(c) ]))
         /\ ci' = ci + 1
TSpec == TInit /\ [][TNext]_ci
Post == ndJsonSerialize(IOEnv.VERDICT_FILE, TLCGet(1))
=======================================================================
