-------------------------- MODULE SymReduceDefs --------------------------
(* Pure definitions for C33: the mirror index map and parity table of an ELECTRIC symmetry plane normal to axis
   `ax` (fdtd/symmetry.py unfold_fields, core/physics/symmetry.py field_component_parity /
   mirror_pairs_on_plane / mirror_extend_low_side).

   Full domain: 2n cells along ax, the plane is the node row n.  Reduced domain: the upper half, cells n..2n-1 of
   the full domain, as reduced cells 0..n-1, with a PEC wall on its min face.
     components sampled ON the plane (tangential E, normal H): full n+j <-> full n-j  (j >= 1; full row 0 has no
        partner: its image lies outside the kept half)
     half-cell-offset components (normal E, tangential H):      full n+j <-> full n-1-j
     parity: E tangential odd, E normal even, H tangential even, H normal odd.
   Lattice helpers come from SupercellDefs (via AxisPermDefs, whose explicit per-axis Yee step is reused).   *)
EXTENDS AxisPermDefs

Halve(N, ax)  == [ N EXCEPT ![ax + 1] = @ \div 2 ]
OnPlane(ft, p, ax) == IF ft = "E" THEN p # ax ELSE p = ax
\* variant "parity": the H row of the parity table is wrong (H treated like E)
Parity(ft, p, ax, variant) ==
    IF ft = "E" \/ variant = "parity" THEN (IF p = ax THEN 1 ELSE -1) ELSE (IF p = ax THEN -1 ELSE 1)

\* source entry in the reduced array (0 = no partner) and sign, for entry I of the full array of shape NF
\* variant "mirror_off_by_one": on-plane components use the plain flip
SrcCoord(c, n, onp, variant) ==
    IF c >= n THEN c - n
    ELSE IF onp /\ variant # "mirror_off_by_one" THEN (IF c >= 1 THEN n - c ELSE -1)
    ELSE n - 1 - c
MirrorSrc(I, NF, ax, ft, variant) ==
    LET n  == NF[ax + 1] \div 2
        c  == Coord(I, NF, ax + 1)
        p  == Comp(I, NF)
        j  == SrcCoord(c, n, OnPlane(ft, p, ax), variant)
        NR == Halve(NF, ax)
        x  == IF ax = 0 THEN j ELSE Coord(I, NF, 1)
        y  == IF ax = 1 THEN j ELSE Coord(I, NF, 2)
        z  == IF ax = 2 THEN j ELSE Coord(I, NF, 3)
    IN  IF j < 0 THEN 0 ELSE Lin(p, x, y, z, NR)
MirrorSign(I, NF, ax, ft, variant) ==
    IF Coord(I, NF, ax + 1) >= NF[ax + 1] \div 2 THEN 1 ELSE Parity(ft, Comp(I, NF), ax, variant)

\* mirror extension of a reduced field (entries without partner: 0)
Unfold(r, NF, ax, ft, variant) ==
    [ I \in 1..Size(NF) |-> LET s == MirrorSrc(I, NF, ax, ft, variant)
                            IN  IF s = 0 THEN 0 ELSE MirrorSign(I, NF, ax, ft, variant) * r[s] ]

\* cells the min boundary of the full domain (thickness `thick` cells) cannot have influenced after `steps`
\* completed steps: every half step of the Yee scheme moves information by at most half a cell
Dist(I, NF, ax, thick) == Coord(I, NF, ax + 1) - thick
OutsideCone(I, NF, ax, thick, steps) == Dist(I, NF, ax, thick) > steps

\* parity-consistent reduced initial fields: odd on-plane components vanish on the plane row
Consistent(r, NR, ax, ft) ==
    \A i \in 1..Size(NR) : (Coord(i, NR, ax + 1) = 0 /\ OnPlane(ft, Comp(i, NR), ax)) => r[i] = 0

\* Volume-reduced detector records (mean over a cell-symmetric region [n-w, n+w) straddling the plane): the full-domain
\* record is determined by the kept half's record only for samples half a cell off the plane (they pair n-1-j <-> n+j
\* inside the region: even components keep their mean, odd ones vanish).  Samples ON the plane occupy the node rows
\* n-w .. n+w-1, which are not symmetric about row n.  Co-located detectors sample every component at (i, j, k+1/2):
\* off the plane only for a z plane (ax = 2); raw detectors sample each component at its own Yee position.
SampledOffPlane(ft, p, ax, colocated) == IF colocated THEN ax = 2 ELSE ~OnPlane(ft, p, ax)
=============================================================================
