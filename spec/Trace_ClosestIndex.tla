---------------------- MODULE Trace_ClosestIndex ----------------------
(* Validates calls of the REAL fdtdx.ClosestIndex.__call__ (and its vector-Jacobian product) against
   ClosestIndex.tla.  One record = one call:
     mode   "index" | "inverse"          den   unit of all real numbers (values are integers / den)
     n      number of materials          eps   inverse mode: permittivities <<num, den>> in DICTIONARY order
     shape, inp      input array (row-major flat list, units 1/den)
     err             "" or the exception text of the forward call
     oshape, out     returned array: shape and values rounded to integers; odev = rounding deviation (ppb)
     gerr, ct, gout  vjp: cotangent fed in (integers), cotangent that came back (rounded), gdev deviation (ppb)
   The property predicate (shape kept, every voxel a nearest allowed index, cotangent unchanged) is
   evaluated HERE on the returned numbers; the last clause compares with the detailed model (tie rule)
   and is classified as drift by the harness, not as a violation.                                    *)
EXTENDS Integers, Sequences, FiniteSets, TLC, TLCExt, Json, IOUtils

D == INSTANCE ClosestIndexDefs

Cases == JsonDeserialize(IOEnv.TRACE_FILE)

VARIABLES ci
tvars == << ci >>

WellFormed(c) ==
    /\ c.mode \in {"index", "inverse"} /\ c.den > 0 /\ c.n >= 2
    /\ D!IsShape(c.shape) /\ Len(c.inp) = D!Size(c.shape)
    /\ c.mode = "inverse" =>
          /\ Len(c.eps) = c.n
          /\ \A i \in 1..c.n : c.eps[i][1] > 0 /\ c.eps[i][2] > 0 /\ D!InvExact(c.eps[i], c.den)
          /\ \A i, j \in 1..c.n : i # j => D!InvOf(c.eps[i], c.den) # D!InvOf(c.eps[j], c.den)
    /\ c.err = "" => Len(c.out) = D!Size(c.oshape)
    /\ c.gerr = "" => Len(c.gout) = D!Size(c.gshape) /\ Len(c.ct) = Len(c.out)

Allowed(c) == IF c.mode = "index" THEN D!IndexAllowed(c.n, c.den)
              ELSE D!InvAllowed([ i \in 1..c.n |-> D!InvOf(c.eps[i], c.den) ])

Model(c, x) == IF c.mode = "index" THEN D!ImplIndexMode(x, c.n, c.den) ELSE D!ImplInvMode(x, Allowed(c))

Verdict(c) ==
    IF ~WellFormed(c) THEN "malformed: record"
    ELSE IF c.err # "" THEN "call: transform raised instead of returning an array"
    ELSE IF c.oshape # c.shape THEN "shape: output shape differs from input shape"
    ELSE LET A   == Allowed(c)
             in  == D!FromFlat(c.shape, c.inp)
             o   == D!FromFlat(c.shape, c.out)
             P   == D!Positions(c.shape)
         IN  IF c.odev # 0 THEN "nearest: output is not an integer index"
             ELSE IF \E p \in P : o[p] \notin D!NearestSet(in[p], A)
                  THEN "nearest: a voxel is not mapped to the index of a nearest allowed value"
             ELSE IF c.gerr # "" THEN "gradient: vjp raised"
             ELSE IF c.gshape # c.shape \/ c.gdev # 0 \/ \E i \in 1..Len(c.ct) : c.gout[i] # c.ct[i]
                  THEN "gradient: cotangent is not passed through unchanged"
             ELSE IF \E p \in P : o[p] # Model(c, in[p])
                  THEN "drift: tie resolved differently from round-half-even / first argmin"
             ELSE "ok"

TInit == ci = 1 /\ TLCSet(1, << >>)
TNext == /\ ci <= Len(Cases)
         /\ TLCSet(1, Append(TLCGet(1), [ id |-> Cases[ci].id, v |-> Verdict(Cases[ci]) ]))
         /\ ci' = ci + 1
TSpec == TInit /\ [][TNext]_tvars

Post == ndJsonSerialize(IOEnv.VERDICT_FILE, TLCGet(1))
=======================================================================
