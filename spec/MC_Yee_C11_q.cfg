SPECIFICATION Spec
CONSTANTS Mode = "complex"  Variant = "ok"  Family = "list"  List = { 1090112, 2130106, 3081201 }  Steps = 2  PairMod = 1
          Extra = { 1002 }
INVARIANT TypeOK
INVARIANT RealStaysReal
CHECK_DEADLOCK FALSE
