SPECIFICATION Spec
CONSTANTS MaxT = 14  MaxK = 6  Lookup = "save_list"
INVARIANT TypeOK
INVARIANT DecompressCorrect
INVARIANT SlotsComplete
INVARIANT SlotsBijective
INVARIANT SaveSetShape
PROPERTY WriteOnce
CHECK_DEADLOCK FALSE
