--------------------------- MODULE ParamArrays ---------------------------
(* Small n-dimensional arrays for the parameter-transform specs (ClosestIndex, SymTransform, Median,
   Pillar, Projection).  A shape is a sequence of positive integers, a position is a sequence of
   1-based indices of the same length, an array is a function  Positions(shape) -> value.
   Flat(shape, p) is the 1-based row-major (C order, numpy .ravel()) index of p: this is how the
   harness serialises implementation arrays, so FromFlat(shape, seq) rebuilds the array inside TLC.  *)
EXTENDS Integers, Sequences, FiniteSets

RECURSIVE ProdFrom(_, _)
ProdFrom(shape, k) == IF k > Len(shape) THEN 1 ELSE shape[k] * ProdFrom(shape, k + 1)
Size(shape) == ProdFrom(shape, 1)

MaxOf(S) == CHOOSE x \in S : \A y \in S : y <= x
MinOf(S) == CHOOSE x \in S : \A y \in S : x <= y
SeqRange(s) == { s[i] : i \in 1..Len(s) }

IsShape(shape) == \A k \in 1..Len(shape) : shape[k] \in Nat \ {0}

\* all positions of an array of the given shape (rank 0 = one position << >>)
Positions(shape) ==
    CASE Len(shape) = 0 -> { << >> }
      [] Len(shape) = 1 -> { << a >> : a \in 1..shape[1] }
      [] Len(shape) = 2 -> { << a, b >> : a \in 1..shape[1], b \in 1..shape[2] }
      [] Len(shape) = 3 -> { << a, b, c >> : a \in 1..shape[1], b \in 1..shape[2], c \in 1..shape[3] }
      [] OTHER -> { p \in [ 1..Len(shape) -> 1..MaxOf(SeqRange(shape)) ] : \A k \in 1..Len(shape) : p[k] <= shape[k] }

RECURSIVE FlatFrom(_, _, _)
FlatFrom(shape, p, k) == IF k > Len(shape) THEN 0 ELSE (p[k] - 1) * ProdFrom(shape, k + 1) + FlatFrom(shape, p, k + 1)
Flat(shape, p) == 1 + FlatFrom(shape, p, 1)

\* inverse of Flat
Unflat(shape, i) == [ k \in 1..Len(shape) |-> (((i - 1) \div ProdFrom(shape, k + 1)) % shape[k]) + 1 ]

FromFlat(shape, seq) == [ p \in Positions(shape) |-> seq[Flat(shape, p)] ]
ToFlat(shape, arr)   == [ i \in 1..Size(shape) |-> arr[Unflat(shape, i)] ]

Abs(x) == IF x < 0 THEN -x ELSE x
==========================================================================
