SPECIFICATION Spec
CONSTANTS MaxT = 30  MaxK = 8  Lookup = "save_list"
INVARIANT TypeOK
INVARIANT DecompressCorrect
INVARIANT SlotsComplete
INVARIANT SlotsBijective
INVARIANT SaveSetShape
PROPERTY WriteOnce
CHECK_DEADLOCK FALSE
