--------------------------- MODULE StopCondDefs ---------------------------
(* Documented continue-predicates of fdtdx's stopping conditions (fdtd/stop_conditions.py) and the halting
   step of the run loop  `while Continue(t) /\ t < T: step`  (the loop itself is bounded by T).          *)
EXTENDS Integers, Sequences, FiniteSets, TLC

\* conv is a sequence of booleans, conv[t+1] = "converged" as evaluated on the state held at time t
\* MaxRule: "max_steps" (documented: hard cut-off at the condition's max_steps)
\*          "total"     (what DetectorConvergenceCondition did before the fix: only config.time_steps_total)
Continue(kind, t, T, mn, mx, conv, maxRule) ==
    CASE kind = "time"     -> t < T
      [] kind = "energy"   -> t < mx /\ (t < mn \/ ~conv[t + 1])
      [] kind = "detector" -> IF maxRule = "max_steps" THEN t < mx /\ (t < mn \/ ~conv[t + 1])      \* hard cut-off wins
                              ELSE t < mn \/ (t < T /\ ~conv[t + 1])                               \* pre-fix code
Stops(kind, t, T, mn, mx, conv, maxRule) == t >= T \/ ~Continue(kind, t, T, mn, mx, conv, maxRule)
Halt(kind, T, mn, mx, conv, maxRule) ==
    CHOOSE h \in 0..T : /\ Stops(kind, h, T, mn, mx, conv, maxRule)
                        /\ \A u \in 0..(h - 1) : ~Stops(kind, u, T, mn, mx, conv, maxRule)
Min2(a, b) == IF a < b THEN a ELSE b
============================================================================
