------------------------- MODULE Trace_Reconstruct -------------------------
(* C03 conformance.  "run" records: a REAL forward run of T steps with lossless interface recording followed by
   T REAL backward() steps (reset_fields = TRUE, as full_backward does); after every reverse step the harness
   measures the residual between the reconstructed and the forward-run fields on all cells outside the absorbing
   layers (integer ppb of the forward field's max).  "grading" records: the CPML coefficient tables of REAL
   PerfectlyMatchedLayer objects at their inner face (premise of the property / of Reconstruct.tla!InnerPlain).
   TLC checks the event order of the sweep and InteriorReconstructed on the observed numbers.            *)
EXTENDS Integers, Sequences, FiniteSets, TLC, TLCExt, Json, IOUtils
Cases == JsonDeserialize(IOEnv.TRACE_FILE)
VARIABLE ci

FwdOK(c) == \A i \in 1..c.T : c.events[i].ev = "fwd" /\ c.events[i].t = i - 1
BwdOK(c) == /\ Len(c.events) = 2 * c.T
            /\ \A i \in 1..c.T : c.events[c.T + i].ev = "bwd" /\ c.events[c.T + i].t = c.T - i
RunVerdict(c) ==
    IF ~FwdOK(c) \/ ~BwdOK(c) THEN "malformed: event order of the sweep"
    ELSE IF ~(c.inner_plain /\ c.lossless) THEN "ok"      \* outside the property's premise: nothing is claimed
    ELSE IF \E i \in 1..c.T : c.events[c.T + i].rE > c.tol
         THEN "reconstruct: E outside the absorbing layers differs from the forward run at some reverse step"
    ELSE IF \E i \in 1..c.T : c.events[c.T + i].rH > c.tol
         THEN "reconstruct: H outside the absorbing layers differs from the forward run at some reverse step"
    ELSE IF c.fwd_peak = 0 THEN "malformed: forward run has zero fields (vacuous)"
    ELSE "ok"
GradingVerdict(c) ==
    IF c.aE # 0 \/ c.aH # 0 THEN "premise: default grading has loss at the inner face (a != 0)"
    ELSE IF c.ikE # c.one \/ c.ikH # c.one THEN "premise: default grading stretches at the inner face (kappa != 1)"
    ELSE "ok"
Verdict(c) == IF c.kind = "run" THEN RunVerdict(c) ELSE GradingVerdict(c)
TInit == ci = 1 /\ TLCSet(1, << >>)
TNext == /\ ci <= Len(Cases)
         /\ LET c == Cases[ci] IN TLCSet(1, Append(TLCGet(1), [ id |-> c.id, v |-> Verdict(c) ]))
         /\ ci' = ci + 1
TSpec == TInit /\ [][TNext]_ci
Post == ndJsonSerialize(IOEnv.VERDICT_FILE, TLCGet(1))
=============================================================================
