SPECIFICATION Spec
CONSTANTS Vals = {1, 2}  MaxMats = 1  AllFormatsUpTo = 1  NormVariant = "diag_bcast"  SortVariant = "common"
INVARIANT TypeOK
INVARIANT NormalForm
INVARIANT FormatIndependent
INVARIANT PredicatesAgree
INVARIANT CommonOrder
INVARIANT SortedOrder
CHECK_DEADLOCK FALSE
