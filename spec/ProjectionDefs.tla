-------------------------- MODULE ProjectionDefs --------------------------
(* Pure definitions for fdtdx tanh_projection / smoothed_projection
   (objects/device/parameters/projection.py), shared by Projection.tla and Trace_Projection.tla.

   Inputs are dyadic: x = xs[i] / xden, threshold eta = en / eden, smoothed-projection fields rho / rden.
   Outputs are integers in units of 1/S (S = 2^29).  tanh itself cannot be computed by TLC: the projection is
   specified exactly at beta = 0 (clip) and beta = infinity (step), and for general beta only through the
   properties every output table must have (range, monotone, fixed points) - see Trace_Projection.          *)
EXTENDS ParamArrays

S == 536870912                     \* 2^29 (outputs for inputs outside [0,1] can reach 2)

\* ---------- exact rules ----------
\* clip(x, 0, 1) in units 1/S; xden must divide S
ClipScaled(x, xden) == (S \div xden) * (IF x < 0 THEN 0 ELSE IF x > xden THEN xden ELSE x)
\* step at the threshold; only defined away from it
AtThreshold(x, xden, en, eden) == x * eden = en * xden
StepScaled(x, xden, en, eden)  == IF x * eden > en * xden THEN S ELSE 0

\* ---------- properties of an output table out[1..n] for inputs xs[1..n] (ascending), tolerance tol (units 1/S) ----------
InUnit(x, xden)   == x >= 0 /\ x <= xden
RangeOK(xs, xden, out, tol)  == \A i \in 1..Len(xs) : InUnit(xs[i], xden) => out[i] >= -tol /\ out[i] <= S + tol
MonotoneOK(xs, out, tol)     == \A i, j \in 1..Len(xs) : xs[i] <= xs[j] => out[i] <= out[j] + tol
FixedOK(xs, xden, out, tol)  == \A i \in 1..Len(xs) : /\ (xs[i] = 0    => Abs(out[i]) <= tol)
                                                       /\ (xs[i] = xden => Abs(out[i] - S) <= tol)
StrictlyInside(en, eden)     == en > 0 /\ en < eden
ClipOK(xs, xden, out, tol)   == \A i \in 1..Len(xs) : Abs(out[i] - ClipScaled(xs[i], xden)) <= tol
StepOK(xs, xden, en, eden, out, tol) ==
    \A i \in 1..Len(xs) : ~AtThreshold(xs[i], xden, en, eden) => Abs(out[i] - StepScaled(xs[i], xden, en, eden)) <= tol

\* ---------- "cell without an interface" of the subpixel-smoothed projection ----------
\* rho: rank-2 array (units 1/rden), eta = en/rden on the same grid.  The code smooths a cell iff the level set
\* rho = eta passes within 0.55 cell widths: |eta - rho| < 0.55 |grad rho|, grad by central differences (one-sided
\* at the border, numpy.gradient).  A cell is CLEARLY without interface when  |eta - rho|^2 > 0.31 |grad rho|^2
\* (0.31 > 0.55^2 = 0.3025 leaves a margin for floating point) or the gradient vanishes.
\* Twice the difference quotient along axis k, in units 1/rden:
Grad2(rho, shape, p, k) ==
    LET up == [ p EXCEPT ![k] = @ + 1 ]  dn == [ p EXCEPT ![k] = @ - 1 ]
    IN  IF p[k] = 1 THEN 2 * (rho[up] - rho[p])
        ELSE IF p[k] = shape[k] THEN 2 * (rho[p] - rho[dn])
        ELSE rho[up] - rho[dn]
GradSq4(rho, shape, p) == Grad2(rho, shape, p, 1) * Grad2(rho, shape, p, 1) + Grad2(rho, shape, p, 2) * Grad2(rho, shape, p, 2)
NoInterface(rho, shape, en, p) ==
    \/ GradSq4(rho, shape, p) = 0
    \/ 400 * (en - rho[p]) * (en - rho[p]) > 31 * GradSq4(rho, shape, p)
===========================================================================
