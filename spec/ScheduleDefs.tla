--------------------------- MODULE ScheduleDefs ---------------------------
(* Pure definitions of the run-level schedule of fdtdx (fdtd/fdtd.py), shared by Schedule.tla and the
   trace specs.                                                                                      *)
EXTENDS Integers, Sequences, FiniteSets, TLC

\* Python's round(n/d) for n >= 0, d > 0: round half to even
RoundHalfEven(n, d) ==
    LET q == n \div d
        r == n % d
    IN  IF 2 * r < d THEN q
        ELSE IF 2 * r > d THEN q + 1
        ELSE IF q % 2 = 0 THEN q ELSE q + 1

\* slice boundaries of the reversible run: k slices (k = reversible checkpoints + 1) over T steps
Bound(T, k, i)   == RoundHalfEven(i * T, k)
Boundaries(T, k) == [ i \in 0..k |-> Bound(T, k, i) ]
\* interior boundaries = times at which a full-field checkpoint is captured
CkptTimes(T, k)  == { Bound(T, k, i) : i \in 1..(k - 1) }

IsPartition(b, T, k) ==
    /\ DOMAIN b = 0..k
    /\ b[0] = 0 /\ b[k] = T
    /\ \A i \in 0..(k - 1) : b[i] < b[i + 1]

Range(lo, hi) == [ i \in 1..(IF hi > lo THEN hi - lo ELSE 0) |-> lo + i - 1 ]      \* <<lo, lo+1, .., hi-1>>
Descending(hi) == [ i \in 1..hi |-> hi - i ]                                       \* <<hi-1, .., 0>>
MaxSegLen(T, k) == LET b == Boundaries(T, k)
                       S == { b[i + 1] - b[i] : i \in 0..(k - 1) }
                   IN  CHOOSE m \in S : \A x \in S : x <= m
============================================================================
