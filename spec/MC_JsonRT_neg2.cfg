SPECIFICATION Spec
CONSTANTS Variant = "tuple_as_list"
INVARIANT TypeOK
INVARIANT RoundTrip
INVARIANT ConstraintsIdentical
INVARIANT PrivateUnsetBeforePlacement
INVARIANT DerivedRecomputed
CHECK_DEADLOCK FALSE
