------------------------ MODULE ExportProgress ------------------------
(* Time-loop progress reporting of fdtdx (core/progress.py: _make_pbar, SimulationProgressBar, _wrap_body_with_progress;
   call sites fdtd/fdtd.py: reversible_fdtd, checkpointed_fdtd, custom_fdtd_forward with step_offset = start_time).

   A segment runs the absolute time steps start .. end-1.  The wrapped loop body reports BEFORE executing step t
   iff t mod interval = 0 (device-side lax.cond), the reported position is t - step_offset; after the loop a closing
   report (total, total) is issued.  interval = _auto_update_interval(total): the smallest 1-2-5 number with
   20 * interval >= total.  No reporter exists for an empty segment.

   Invariants (rule 3):
     InRange        every reported position lies in 0..total and carries the segment length as total
     Monotone       positions increase strictly
     CountIsSteps   #reports = #executed steps lying on the interval grid (+1 after closing); for total <= 20 that is
                    exactly one report per executed step
     AtMostTwenty   never more than 20 step reports per segment
     ClosedForm     the finished sequence is ExportDefs!ExpectedCalls;  FinalIsTotal: it ends with (total, total)
     NiceMinimal    the interval is the smallest 1-2-5 number with 20 * interval >= total
   Variant: "no_offset" (step_offset not subtracted), "no_close" (no closing report) are negative instances.   *)
EXTENDS ExportDefs

CONSTANTS MaxStart, MaxLen, Variant
VARIABLES start, end, iv, t, calls, closed
vars == << start, end, iv, t, calls, closed >>
Total == end - start
Off == IF Variant = "no_offset" THEN 0 ELSE start

Init == /\ start \in 0..MaxStart /\ end \in start..(start + MaxLen)
        /\ iv = NiceInterval(end - start) /\ t = start /\ calls = << >> /\ closed = FALSE
Step == /\ t < end
        /\ calls' = IF t % iv = 0 THEN Append(calls, << t - Off, Total >>) ELSE calls
        /\ t' = t + 1
        /\ UNCHANGED << start, end, iv, closed >>
Close == /\ t = end /\ ~closed
         /\ calls' = IF Total > 0 /\ Variant # "no_close" THEN Append(calls, << Total, Total >>) ELSE calls
         /\ closed' = TRUE
         /\ UNCHANGED << start, end, iv, t >>
Next == Step \/ Close
Spec == Init /\ [][Next]_vars

OnGrid == { u \in start..(t - 1) : u % iv = 0 }
InRange == \A k \in 1..Len(calls) : calls[k][1] \in 0..Total /\ calls[k][2] = Total
Monotone == \A k \in 1..(Len(calls) - 1) : calls[k][1] < calls[k + 1][1]
CountIsSteps == /\ Len(calls) = Cardinality(OnGrid) + (IF closed /\ Total > 0 THEN 1 ELSE 0)
                /\ Total <= 20 => Cardinality(OnGrid) = t - start
AtMostTwenty == Cardinality(OnGrid) <= 20
ClosedForm == (closed /\ Total > 0) => [ k \in 1..Len(calls) |-> calls[k][1] ] = ExpectedCalls(start, end, iv)
FinalIsTotal == (closed /\ Total > 0) => calls[Len(calls)] = << Total, Total >>
NiceNumbers == { 1, 2, 5, 10, 20, 50, 100, 200, 500, 1000 }
NiceMinimal == /\ iv \in NiceNumbers /\ 20 * iv >= Total
               /\ \A c \in NiceNumbers : c < iv => 20 * c < Total
=======================================================================
