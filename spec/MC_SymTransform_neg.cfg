SPECIFICATION Spec
CONSTANTS
  KindSet <- AntiKinds
  ShapeSet <- ShapesNeg
  Full3 = 4
  Full2 = 9
  Variant = "rot90"
INVARIANT TypeOK
INVARIANT Invariance
INVARIANT IdentityOnSym
INVARIANT Idempotent
INVARIANT MeanKept
CHECK_DEADLOCK FALSE
