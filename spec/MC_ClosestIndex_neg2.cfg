SPECIFICATION Spec
CONSTANTS
  MaxN = 2
  Shapes <- ShapesNeg
  BigShapes <- NoShapes
  BigN = 0
  MatSets <- MatSetsNeg
  Variant = "no_ste"
INVARIANT TypeOK
INVARIANT ShapeKept
INVARIANT Nearest
INVARIANT GradOne
CHECK_DEADLOCK FALSE
