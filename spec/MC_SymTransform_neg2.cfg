SPECIFICATION Spec
CONSTANTS
  KindSet <- AllKinds
  ShapeSet <- ShapesNeg
  Full3 = 4
  Full2 = 9
  Variant = "no_half"
INVARIANT TypeOK
INVARIANT Invariance
INVARIANT IdentityOnSym
INVARIANT Idempotent
INVARIANT MeanKept
CHECK_DEADLOCK FALSE
