----------------------------- MODULE AbsorbDefs -----------------------------
(* C12 "absorbing layers absorb" - pure definitions shared by AbsorbScenes.tla (configuration space + phase
   machine over abstract observations) and Trace_Absorb.tla (the same predicates on logged numbers of REAL runs).
   Trace-monitor level: the thresholds are those of the property statement; nothing here derives them.     *)
EXTENDS Integers, Sequences, FiniteSets

Faces  == {"min_x", "max_x", "min_y", "max_y", "min_z", "max_z"}
Kinds  == {"mdipole", "edipole", "plane"}     \* magnetic dipole, electric dipole, finite plane (TFSF) source
Thicks == {8, 12, 20}                         \* thickness classes of the layers (cells), same on every face
MinThick == 8                                 \* precondition of the statement: at least 8 cells on EVERY face
AxisOf(f) == IF f \in {"min_x", "max_x"} THEN 0 ELSE IF f \in {"min_y", "max_y"} THEN 1 ELSE 2
\* a dipole may point along any axis; a plane source radiating towards face f is polarised along a transverse axis
Pols(f, k) == IF k = "plane" THEN {0, 1, 2} \ {AxisOf(f)} ELSE {0, 1, 2}
\* grading of the layers (same on every face; the statement does not restrict it):
\*   default  - library defaults (kappa = 1, alpha 0.01 w(1.55um) eps0 -> 0, cubic sigma)
\*   kappa5 / kappa10 - real coordinate stretching graded from 1 at the interface to 5 / 10 at the outer wall
\*   alpha5   - complex-frequency-shift parameter alpha_start five times the default
Gradings == {"default", "kappa5", "kappa10", "alpha5"}
KappaEndMilli(g) == CASE g = "kappa5" -> 5000 [] g = "kappa10" -> 10000 [] OTHER -> 1000
Configs == { c \in [face : Faces, kind : Kinds, pol : 0..2, thick : Thicks, grading : Gradings] : c.pol \in Pols(c.face, c.kind) }

\* ---- scaled-integer units of the log
PeakUnits  == 1000000000      \* interior energy is logged in units of 1e-9 * (peak interior energy of the run)
QuietBound == 1000            \* statement: energy left after the pulse has left  <  1e-6 * peak
DiffBound  == 100000          \* statement: relative energy of (small - reference) over the window < 1e-4   (ppb)
DcBound    == 100             \* "zero-net-charge": |sum s| / sum |s| of the sampled source pulse < 1e-7    (ppb)
QuietDecades == 6             \* QuietBound expressed in decades below the peak
ASSUME QuietBound * (10 ^ QuietDecades) = PeakUnits

\* ---- phase machine  Pulse -> Ringdown -> Quiet  (driven by the time stamps the harness declares)
\*   tOff   : first step at which the source pulse is over (12 sigma of the Gaussian pulse)
\*   tQuiet : tOff + QuietTransits * (time light needs to cross the whole domain, layers included)
QuietTransits == 4
PhaseAt(t, tOff, tQuiet) == IF t < tOff THEN "Pulse" ELSE IF t < tQuiet THEN "Ringdown" ELSE "Quiet"
PhaseOrder(p) == CASE p = "Pulse" -> 0 [] p = "Ringdown" -> 1 [] p = "Quiet" -> 2

\* ---- the property's inequalities
QuietOK(phase, e) == phase = "Quiet" => e < QuietBound
DiffOK(d) == d < DiffBound
\* ---- the property's preconditions on a scene
AllFacesAbsorb(thickFaces) == \A i \in 1..Len(thickFaces) : thickFaces[i] >= MinThick
ZeroCharge(dcPpb) == dcPpb < DcBound
=============================================================================
