SPECIFICATION Spec
CONSTANTS
  Shapes <- ShapesN
  Tilings <- TilingsN
  MaxT = 2
  Variant = "L_short"
  Dense = TRUE
  Basis = "origin"
  Singles = "none"
INVARIANT TypeOK
INVARIANT TileInv
CHECK_DEADLOCK FALSE
