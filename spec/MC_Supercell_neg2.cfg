SPECIFICATION Spec
CONSTANTS
  Pairs <- PairsN
  MaxT = 2
  Variant = "L_short"
  Dense = TRUE
  Basis = "origin"
  Singles = "none"
INVARIANT TypeOK
INVARIANT TileInv
CHECK_DEADLOCK FALSE
