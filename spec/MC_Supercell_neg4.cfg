SPECIFICATION Spec
CONSTANTS
  Pairs <- PairsN
  MaxT = 2
  Variant = "wrap_swapped"
  Dense = TRUE
  Basis = "origin"
  Singles = "none"
INVARIANT TypeOK
INVARIANT TileInv
CHECK_DEADLOCK FALSE
