SPECIFICATION Spec
CONSTANTS NX = 4  NY = 3  NZ = 3  Variant = "doc"  HaloMode = "few"  NumFields = 4  NumWidths = 3  DetMode = "all"  Parts = 2
INVARIANT TypeOK
INVARIANT RecordIsFormula
INVARIANT PathsAgree
INVARIANT BlockInDomain
PROPERTY HprevIsOldH
CHECK_DEADLOCK FALSE
