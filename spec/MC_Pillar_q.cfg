SPECIFICATION Spec
CONSTANTS
  AxShapeSet <- AxShapesQ
  InvSets <- InvSetsQ
  Grid3 <- GridQ3
  Grid4 <- GridQ4
  Variant = "spec"
INVARIANT TypeOK
INVARIANT ColumnsAllowed
INVARIANT ColumnsNearest
CHECK_DEADLOCK FALSE
