SPECIFICATION Spec
CONSTANTS
  Shapes <- ShapesNeg
  Modes = { "material" }
  Loop = "maxside"
  Seed = "bottom"
  Filter <- SixCells
INVARIANT TypeOK
INVARIANT RankWitness
INVARIANT TerminalIsReach
INVARIANT RemoveCorrect
CHECK_DEADLOCK TRUE
