SPECIFICATION Spec
CONSTANTS Mode = "energy"  Variant = "pec_normal"  Family = "list"  List = { 1090101 }  Steps = 1  PairMod = 7
          Extra = { 1000 }
INVARIANT TypeOK
INVARIANT EnergyBalance
CHECK_DEADLOCK FALSE
