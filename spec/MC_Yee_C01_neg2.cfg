SPECIFICATION Spec
CONSTANTS Mode = "energy"  Variant = "pec_normal"  Family = "list"  List = { 1090312 }  Steps = 1
          Extra = { 1000 }
INVARIANT TypeOK
INVARIANT EnergyBalance
CHECK_DEADLOCK FALSE
