------------------------ MODULE Trace_Materials ------------------------
(* Validates what the REAL fdtdx.Material / materials.py functions (on /repo/src) produced against the
   definitions of MaterialsDefs.tla.  Two kinds of record:

   kind = "dict":  a dictionary of real Material objects, each property entered in a given format.
       mats[k] = [ name, src (the inputs as entered, format + scaled integers), m (the stored 9-tuples),
                   twins (the same tensor entered in every other applicable format -> what was stored),
                   preds (the is_isotropic_* / is_diagonally_anisotropic_* / is_all_* properties) ]
       names   = compute_ordered_names(materials)
       matidx  = for compute_ordered_materials(materials): dictionary position of the r-th returned object
       lists   = compute_allowed_{permittivities, permeabilities, electric_conductivities, magnetic_conductivities}
                 in the three modes (isotropic / diagonally_anisotropic / full)
       disp    = for compute_allowed_dispersive_coefficients: disp[r][k] <=> row r equals the coefficients that
                 material k has on its own (zero rows for non-dispersive materials)
     TLC evaluates: stored = Normalize(input) and Represents; twins stored identically; predicates = the spec's
     predicates on the tensor; ONE order (the one of `names`) lays out every list.

   kind = "form": an input written in a form the code does not accept today (a 3-tuple of ints / float32 / mixed
     entries, a list, a numpy array): raising is fine; a numeric 9-tuple, if stored, must be the tensor entered.

   kind = "complex" (trace-monitor clause): Material.from_complex_permittivity at a reference frequency; the
     harness reconstructs eps' + i sigma/(omega eps0) per component and logs the relative deviation from the
     complex permittivity that went in, in units of 1e-12 (dev), next to scaled values; the spec owns the bound. *)
EXTENDS Integers, Sequences, FiniteSets, TLC, TLCExt, Json, IOUtils

M == INSTANCE MaterialsDefs

Cases == JsonDeserialize(IOEnv.TRACE_FILE)
VARIABLES ci
tvars == << ci >>

Fmts == { "scalar", "diag3", "flat9", "nested" }
PropSet == { M!Props[q] : q \in 1..4 }

\* ---------- dictionary records ----------
D(c) == M!Tabulate([ k \in 1..Len(c.mats) |-> [ name |-> c.mats[k].name, m |-> c.mats[k].m ] ], Len(c.mats))
IndexOfName(c, nm) == LET S == { k \in 1..Len(c.mats) : c.mats[k].name = nm } IN IF Cardinality(S) = 1 THEN CHOOSE k \in S : TRUE ELSE 0
NameOrd(c) == M!Tabulate([ r \in 1..Len(c.names) |-> IndexOfName(c, c.names[r]) ], Len(c.names))

MalformedDict(c) ==
    \/ ~c.exact
    \/ \E k \in 1..Len(c.mats) : \E p \in PropSet :
          ~(c.mats[k].src[p].fmt \in Fmts /\ M!FormatOK(c.mats[k].src[p]))
    \/ \E k \in 1..Len(c.mats) : \E j \in 1..Len(c.mats[k].twins) :
          ~(M!FormatOK(c.mats[k].twins[j].inp) /\ M!SameTensor(c.mats[k].twins[j].inp, c.mats[k].src[c.mats[k].twins[j].p]))

NormalFormOK(c) == \A k \in 1..Len(c.mats) : \A p \in PropSet :
                      /\ c.mats[k].m[p] = M!Normalize(c.mats[k].src[p], "rowmajor")
                      /\ M!Represents(c.mats[k].m[p], c.mats[k].src[p])
TwinsOK(c) == \A k \in 1..Len(c.mats) : \A j \in 1..Len(c.mats[k].twins) :
                 c.mats[k].twins[j].t = c.mats[k].m[c.mats[k].twins[j].p]
PredsOK(c) == \A k \in 1..Len(c.mats) :
    LET mt == c.mats[k] IN
    /\ \A p \in PropSet : /\ mt.preds.iso[p]  = M!TensorIsIsotropic(mt.src[p])
                          /\ mt.preds.diag[p] = M!TensorIsDiagonal(mt.src[p])
    /\ mt.preds.all_iso  = (\A p \in PropSet : M!TensorIsIsotropic(mt.src[p]))
    /\ mt.preds.all_diag = (\A p \in PropSet : M!TensorIsDiagonal(mt.src[p]))
\* further classification properties (not in the statement of C39; a mismatch is reported as drift)
OtherPredsOK(c) == \A k \in 1..Len(c.mats) :
    LET mt == c.mats[k] IN
    /\ mt.preds.magnetic = (mt.m.mu # M!Identity9(c.scale))
    /\ mt.preds.e_cond   = (mt.m.se # M!Zero9)
    /\ mt.preds.m_cond   = (mt.m.sm # M!Zero9)

\* (d, ord, n are bound once through singleton sets: a LET definition would be re-evaluated by TLC at every use)
CommonOrderOK(c) ==
    \E d \in { D(c) } : \E ord \in { NameOrd(c) } : \E n \in { Len(c.mats) } :
    /\ Len(c.names) = n /\ M!IsPermutation(ord, n)
    /\ Len(c.matidx) = n /\ \A r \in 1..n : c.matidx[r] = ord[r]
    /\ \A p \in PropSet : \A md \in 1..3 :
          \E got \in { c.lists[p][M!Modes[md]] } :
          Len(got) = n /\ \A r \in 1..n : got[r] = M!Proj(d[ord[r]].m[p], M!Modes[md])
    /\ Len(c.disp) = n /\ \A r \in 1..n : c.disp[r][ord[r]]
\* the documented key order (ascending, stable) - more detailed than the property
DocumentedOrderOK(c) == \E want \in { M!Order(D(c)) } : \E ord \in { NameOrd(c) } : \A r \in 1..Len(c.mats) : ord[r] = want[r]

DictVerdict(c) ==
    IF MalformedDict(c) THEN "malformed: dictionary record"
    ELSE IF ~NormalFormOK(c) THEN "normal form: stored tuple is not the tensor that was entered"
    ELSE IF ~TwinsOK(c) THEN "formats: the same tensor entered in another format is stored differently"
    ELSE IF ~PredsOK(c) THEN "predicates: isotropy/diagonality property disagrees with the tensor"
    ELSE IF ~CommonOrderOK(c) THEN "common order: a per-property list is not laid out in the order of the name list"
    ELSE IF ~DocumentedOrderOK(c) THEN "documented order: not ascending/stable in (eps_xx, mu_xx, se_xx, sm_xx)"
    ELSE IF ~OtherPredsOK(c) THEN "other predicates: is_magnetic / is_*_conductive disagrees with the stored tuples"
    ELSE "ok"

\* ---------- complex permittivity round trip (trace-monitor) ----------
ComplexVerdict(c) ==
    IF ~(c.tol > 0 /\ c.tol <= 1000 /\ Len(c.comps) \in { 1, 3, 9 }) THEN "malformed: complex record"
    ELSE IF ~c.built THEN "round trip: from_complex_permittivity raised"
    ELSE IF \E k \in 1..Len(c.comps) : ~c.comps[k].re_exact THEN "round trip: real part not kept"
    ELSE IF \E k \in 1..Len(c.comps) : c.comps[k].dev > c.tol THEN "round trip: eps' + i sigma/(omega eps0) differs from the permittivity entered"
    ELSE IF \E k \in 1..Len(c.comps) : c.comps[k].dev_code > c.tol THEN "round trip: the library's complex permittivity at the reference frequency differs"
    ELSE IF \E k \in 1..Len(c.comps) : (c.comps[k].im_in > 0 /\ c.comps[k].sigma_sign # 1) \/ (c.comps[k].im_in < 0 /\ c.comps[k].sigma_sign # -1)
                                        \/ (c.comps[k].im_in = 0 /\ c.comps[k].sigma_sign # 0)
         THEN "round trip: loss sign (positive imaginary part must give positive conductivity)"
    ELSE "ok"

\* ---------- input forms outside the four formats / representations the code accepts ----------
\* The only thing claimed: IF such an input is accepted and a numeric 9-tuple is stored, it is the tensor entered.
\* Raising is fine.  Storing something that is not a 9-tuple of numbers (a list or array broadcast as if it were a scalar)
\* is outside the statement; it is reported (drift) because it is neither a loud rejection nor a normal form.
FormVerdict(c) ==
    IF ~(c.inp.fmt \in Fmts /\ M!FormatOK(c.inp) /\ Len(c.t) = 9) THEN "malformed: form record"
    ELSE IF c.raised THEN "ok"
    ELSE IF ~c.numeric THEN "forms: a container that is none of the four formats was accepted and broadcast like a scalar"
    ELSE IF c.t # M!Normalize(c.inp, "rowmajor") \/ ~M!Represents(c.t, c.inp) THEN "normal form: stored tuple is not the tensor that was entered"
    ELSE "ok"

Verdict(c) == IF c.kind = "dict" THEN DictVerdict(c) ELSE IF c.kind = "complex" THEN ComplexVerdict(c)
              ELSE IF c.kind = "form" THEN FormVerdict(c) ELSE "malformed: kind"

TInit == ci = 1 /\ TLCSet(1, << >>)
TNext == /\ ci <= Len(Cases)
         /\ TLCSet(1, Append(TLCGet(1), [ id |-> Cases[ci].id, v |-> Verdict(Cases[ci]) ]))
         /\ ci' = ci + 1
TSpec == TInit /\ [][TNext]_tvars
Post == ndJsonSerialize(IOEnv.VERDICT_FILE, TLCGet(1))
=======================================================================
