SPECIFICATION Spec
CONSTANTS
  ShapeSet <- ShapesNeg
  KernelSet <- KernelsNeg
  CfgSet <- CfgsNeg
  Variant = "corner_first_axis"
INVARIANT TypeOK
INVARIANT PadAgrees
INVARIANT MajorityOK
CHECK_DEADLOCK FALSE
