SPECIFICATION Spec
CONSTANTS Mode = "linear"  Variant = "ok"  Family = "list"  List = { 1021013, 3081203 }  Steps = 2  PairMod = 1
          Extra = { 1002 }
INVARIANT TypeOK
INVARIANT Linear
CHECK_DEADLOCK FALSE
