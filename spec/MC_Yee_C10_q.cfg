SPECIFICATION Spec
CONSTANTS Mode = "linear"  Variant = "ok"  Family = "mixed"  List = { }  Steps = 2  PairMod = 1
          Extra = { 1002 }
INVARIANT TypeOK
INVARIANT Linear
CHECK_DEADLOCK FALSE
