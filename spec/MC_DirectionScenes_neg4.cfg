SPECIFICATION Spec
CONSTANTS Variant = "ok"  RampSteps = 4  GaussShare = 13
INVARIANT Directional
CHECK_DEADLOCK FALSE
