-------------------------- MODULE PhasorDefs --------------------------
(* Pure definitions for the phasor (running DFT) detectors of fdtdx
   (objects/detectors/phasor.py, poynting_flux.py, core/window.py), shared by Phasor.tla and
   Trace_Phasor.tla.  Exact arithmetic: the angular frequencies are chosen with
   omega * dt = q * pi / 2 (q integer), so exp(i omega t dt) = i^(q t) is one of 1, i, -1, -i and every
   accumulated value is a Gaussian integer <<re, im>>.  Window weights are carried as integers
   w4 = 4 * w (weights that are multiples of 1/4).                                                    *)
EXTENDS Integers, Sequences, FiniteSets

\* ---------------------------------------------------------------- Gaussian integers
CZero == << 0, 0 >>
CAdd(a, b) == << a[1] + b[1], a[2] + b[2] >>
CSub(a, b) == << a[1] - b[1], a[2] - b[2] >>
CMul(a, b) == << a[1] * b[1] - a[2] * b[2], a[1] * b[2] + a[2] * b[1] >>
CScale(k, a) == << k * a[1], k * a[2] >>
CConj(a) == << a[1], -a[2] >>
IPow(n) == LET r == n % 4 IN IF r = 0 THEN << 1, 0 >> ELSE IF r = 1 THEN << 0, 1 >> ELSE IF r = 2 THEN << -1, 0 >> ELSE << 0, -1 >>
\* exp(i * omega_q * t * dt) for omega_q * dt = q * pi / 2
Rot(q, t) == IPow(q * t)

\* ---------------------------------------------------------------- which steps are recorded
\* base: the detector's on-list from its switch (function 0..T-1 -> BOOLEAN); the phasor detector keeps every
\* stride-th ACTIVE step, starting with the first active one.
Active(base, T) == { t \in 0..(T - 1) : base[t] }
Rank(base, T, t) == Cardinality({ s \in Active(base, T) : s < t })
Kept(base, T, stride) == { t \in Active(base, T) : Rank(base, T, t) % stride = 0 }

\* ---------------------------------------------------------------- sums over finite sets of steps
RECURSIVE SumSteps(_, _, _)
\* sum over t in lo..hi with t in S of f[t]   (f : step -> Int)
SumSteps(S, f, hi) == IF hi < 0 THEN 0 ELSE (IF hi \in S THEN f[hi] ELSE 0) + SumSteps(S, f, hi - 1)
RECURSIVE CSumSteps(_, _, _)
CSumSteps(S, f, hi) == IF hi < 0 THEN CZero ELSE CAdd(IF hi \in S THEN f[hi] ELSE CZero, CSumSteps(S, f, hi - 1))

\* ---------------------------------------------------------------- the property's right-hand side
\* windowed DFT over the recorded steps before time `upto` (exclusive), weights 4*w:
\*     Dft4 = sum_{t kept, t < upto}  w4[t] * F[t] * i^(q t)          (sign -1 for inverse-time detectors)
Dft4(F, w4, S, q, upto, inverse) ==
    CScale(IF inverse THEN -1 ELSE 1, CSumSteps(S, [ t \in 0..(upto - 1) |-> CScale(w4[t] * F[t], Rot(q, t)) ], upto - 1))
WSum4(w4, S, T) == SumSteps(S, w4, T - 1)

\* Relation between the stored (scaled) value `st` and the unscaled integer sum acc4 (= 4 * sum w F e^{i w t}):
\*   continuous:  st = (2 / sum w) * acc4 / 4      <=>   st * wsum4 = 2 * acc4
\*   pulse     :  st = stride * acc4 / 4           <=>   4 * st = stride * acc4
Scaled(st, acc4, mode, wsum4, stride) ==
    IF mode = "continuous" THEN CScale(wsum4, st) = CScale(2, acc4) ELSE CScale(4, st) = CScale(stride, acc4)

\* ---------------------------------------------------------------- Poynting flux of phasors
\* P : component index 1..6 (Ex,Ey,Ez,Hx,Hy,Hz) -> Gaussian integer.  Re(E x conj(H)) component a (0..2)
ReMulConj(a, b) == a[1] * b[1] + a[2] * b[2]                 \* Re(a * conj(b))
PoyntingRe(P, a) ==
    LET j == (a + 1) % 3  k == (a + 2) % 3
    IN  ReMulConj(P[j + 1], P[3 + k + 1]) - ReMulConj(P[k + 1], P[3 + j + 1])
=======================================================================
