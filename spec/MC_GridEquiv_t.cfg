SPECIFICATION Spec
CONSTANTS
  MaxN = 6
  MaxD = 4
  MaxT = 4
  Variant = "ok"
INVARIANT TypeOK
INVARIANT AllEqual
INVARIANT ScaleIsOne
CHECK_DEADLOCK FALSE
