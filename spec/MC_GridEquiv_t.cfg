SPECIFICATION Spec
CONSTANTS
  MaxN = 6
  MaxD = 4
  MaxT = 4
  Variant = "ok"
  Volumes <- VolumesT
INVARIANT TypeOK
INVARIANT AllEqual
INVARIANT ScaleIsOne
INVARIANT EdgesAgree
INVARIANT PlacementAgrees
INVARIANT CentrePlacementAgrees
CHECK_DEADLOCK FALSE
