SPECIFICATION Spec
CONSTANTS Size = "q"  Variant = "corner"
INVARIANT TypeOK
INVARIANT MaskIsInclusion
INVARIANT BoundaryExcluded
INVARIANT SymmetricMask
INVARIANT Extruded
PROPERTY Monotone
PROPERTY MirrorEquivariant
CHECK_DEADLOCK FALSE
