----------------------------- MODULE Schedule -----------------------------
(* Run-level state machine of fdtdx's time loop (fdtd/fdtd.py, fdtd/wrapper.py, fdtd/backward.py).

   Field state is abstracted to "which time index do the arrays hold" (`t`), the list of forward steps
   executed since the last reset (`executed`: the simulation state is a function of it — C06), and for the
   reversible backward pass the number of reverse steps since the last exact state (`drift`).

   One action per code-level step:
     Reset                 arrays.reset() at the start of run_fdtd / custom_fdtd_forward(reset_container=True)
     FwdStep               forward(t) inside the (segmented) while loop
     Capture               full-field checkpoint at an interior slice boundary (reversible, K > 0)
     Return                the primal call returns (time = T)
     PartialStart(a,b,rs)  custom_fdtd_forward(start_time=a, end_time=b, reset_container=rs)
     Sel / Bwd / Vjp       one iteration of the reversible backward loop: checkpoint select, backward(t -> t-1),
                           VJP of forward(t-1)
     EndReverse            loop condition false
   RevLoop selects the loop condition of the reverse loop: "gt" = `time_step > 0` (the design, and the code
   after the fix), "ge" = `time_step >= 0` (the code before the fix: one reverse step past t = 0).        *)
EXTENDS ScheduleDefs

CONSTANTS MaxT, RevLoop

VARIABLES T, K, method,          \* run parameters chosen at Init: total steps, reversible checkpoints, gradient method
          phase,                 \* "idle" | "primal" | "returned" | "reverse" | "done" | "partial"
          pc,                    \* sub-step of a reverse iteration: "sel" | "bwd" | "vjp"
          t,                     \* time index held by the arrays
          seg,                   \* current slice of the reversible primal run
          hi,                    \* end of the current loop (slice end / partial-run end)
          ckpts,                 \* times with a captured full-field checkpoint
          executed,              \* forward steps executed since the last reset
          vjps,                  \* time steps whose forward VJP has been taken, in order
          drift,                 \* reverse steps since the last exact field state
          full                   \* the current/last run is a full run_fdtd call (not a partial run)
vars == << T, K, method, phase, pc, t, seg, hi, ckpts, executed, vjps, drift, full >>

Methods == {"none", "checkpointed", "reversible"}
NumSlices == IF method = "reversible" THEN K + 1 ELSE 1
B == Boundaries(T, NumSlices)

Init == /\ T \in 1..MaxT
        /\ method \in Methods
        /\ K \in 0..(T - 1) /\ (method # "reversible" => K = 0)
        /\ phase = "idle" /\ pc = "sel" /\ t = 0 /\ seg = 0 /\ hi = 0
        /\ ckpts = {} /\ executed = << >> /\ vjps = << >> /\ drift = 0 /\ full = FALSE

\* Every action is  Guard /\ Effect ; the trace spec (Trace_Schedule.tla) reuses both halves.
\* ---- full run (run_fdtd) ----
ResetG == phase \in {"idle", "returned", "done"}
ResetE == /\ phase' = "primal" /\ t' = 0 /\ seg' = 0 /\ hi' = B[1]
          /\ executed' = << >> /\ ckpts' = {} /\ vjps' = << >> /\ drift' = 0 /\ pc' = "sel" /\ full' = TRUE
          /\ UNCHANGED << T, K, method >>
Reset == ResetG /\ ResetE

FwdStepG == phase \in {"primal", "partial"} /\ t < hi
FwdStepE == /\ executed' = Append(executed, t)
            /\ t' = t + 1
            /\ UNCHANGED << T, K, method, phase, pc, seg, hi, ckpts, vjps, drift, full >>
FwdStep == FwdStepG /\ FwdStepE

CaptureG == phase = "primal" /\ t = hi /\ seg < NumSlices - 1
CaptureE == /\ ckpts' = ckpts \cup {t}
            /\ seg' = seg + 1 /\ hi' = B[seg + 2]
            /\ UNCHANGED << T, K, method, phase, pc, t, executed, vjps, drift, full >>
Capture == CaptureG /\ CaptureE

ReturnG == phase = "primal" /\ t = hi /\ seg = NumSlices - 1
ReturnE == /\ phase' = "returned"
           /\ UNCHANGED << T, K, method, pc, t, seg, hi, ckpts, executed, vjps, drift, full >>
Return == ReturnG /\ ReturnE

\* ---- partial runs (custom_fdtd_forward) ----
PartialStartG(a, b, rs) ==
    /\ phase \in {"idle", "returned", "done"}
    /\ rs \/ (a = t /\ executed = Range(0, a))        \* consecutive continuation of what the arrays hold
    /\ a <= b /\ b <= T /\ (rs => a = 0)
PartialStartE(a, b, rs) ==
    /\ phase' = "partial" /\ t' = a /\ hi' = b
    /\ executed' = IF rs THEN << >> ELSE executed
    /\ full' = FALSE /\ ckpts' = {}
    /\ UNCHANGED << T, K, method, pc, seg, vjps, drift >>
PartialStart(a, b, rs) == PartialStartG(a, b, rs) /\ PartialStartE(a, b, rs)
PartialReturnG == phase = "partial" /\ t = hi
PartialReturn == PartialReturnG /\ ReturnE

\* ---- reversible backward pass (custom VJP) ----
LoopCond == IF RevLoop = "gt" THEN t > 0 ELSE t >= 0
StartReverseG == phase = "returned" /\ full /\ method = "reversible" /\ t = T /\ executed = Range(0, T)
StartReverseE == /\ phase' = "reverse" /\ pc' = "sel" /\ drift' = 0
                 /\ UNCHANGED << T, K, method, t, seg, hi, ckpts, executed, vjps, full >>
StartReverse == StartReverseG /\ StartReverseE
SelG == phase = "reverse" /\ pc = "sel" /\ LoopCond
SelE == /\ drift' = IF t \in ckpts THEN 0 ELSE drift
        /\ pc' = "bwd"
        /\ UNCHANGED << T, K, method, phase, t, seg, hi, ckpts, executed, vjps, full >>
Sel == SelG /\ SelE
BwdG == phase = "reverse" /\ pc = "bwd"
BwdE == /\ t' = t - 1 /\ drift' = drift + 1 /\ pc' = "vjp"
        /\ UNCHANGED << T, K, method, phase, seg, hi, ckpts, executed, vjps, full >>
Bwd == BwdG /\ BwdE
VjpG == phase = "reverse" /\ pc = "vjp"
VjpE == /\ vjps' = Append(vjps, t) /\ pc' = "sel"
        /\ UNCHANGED << T, K, method, phase, t, seg, hi, ckpts, executed, drift, full >>
Vjp == VjpG /\ VjpE
EndReverseG == phase = "reverse" /\ pc = "sel" /\ ~LoopCond
EndReverseE == /\ phase' = "done"
               /\ UNCHANGED << T, K, method, pc, t, seg, hi, ckpts, executed, vjps, drift, full >>
EndReverse == EndReverseG /\ EndReverseE

Next == \/ Reset \/ FwdStep \/ Capture \/ Return
        \/ \E a \in 0..MaxT, b \in 0..MaxT, rs \in BOOLEAN : PartialStart(a, b, rs)
        \/ PartialReturn
        \/ StartReverse \/ Sel \/ Bwd \/ Vjp \/ EndReverse
Spec == Init /\ [][Next]_vars

\* ---------------- properties ----------------
TypeOK == /\ phase \in {"idle", "primal", "returned", "reverse", "done", "partial"}
          /\ pc \in {"sel", "bwd", "vjp"} /\ seg \in 0..K

\* C05: the slice boundaries partition the run (for every T and every admissible checkpoint count)
SlicePartition == IsPartition(B, T, NumSlices)
\* C05/C06: whatever the strategy or the split, a returned run that covers [0,hi) has executed exactly 0..hi-1
ExecutedIsPrefix == phase = "returned" => executed = Range(0, t)
FullRunExecutesAll == (phase = "returned" /\ t = T) => executed = Range(0, T)
\* C04: the reverse pass never steps below time 0 ...
NoNegativeTime == t >= 0
\* ... linearises every forward step exactly once, latest first ...
VjpOnceDescending == phase = "done" => vjps = Descending(T)
VjpPrefixDescending == \A i \in 1..Len(vjps) : vjps[i] = T - i
\* ... checkpoints are exactly the interior boundaries, and reverse drift is bounded by the longest slice
CheckpointsAtBoundaries == (full /\ method = "reversible" /\ phase \in {"returned", "reverse", "done"})
                              => ckpts = CkptTimes(T, NumSlices)
DriftBounded == phase = "reverse" => drift <= MaxSegLen(T, NumSlices) + (IF RevLoop = "ge" THEN 1 ELSE 0)
=============================================================================
