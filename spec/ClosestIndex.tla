--------------------------- MODULE ClosestIndex ---------------------------
(* fdtdx.ClosestIndex (objects/device/parameters/discretization.py) as a one-step machine

        phase = "in"  --Apply-->  phase = "out"

   The initial states are ALL inputs inside the bound: both modes, every material set, every shape
   (including singleton axes) and every array over a value grid that contains all allowed values, all
   midpoints between neighbouring allowed values (ties) and points outside the allowed range.
   Apply is shaped like the code: a per-voxel lookup (index mode: clip(round(x), 0, n-1); inverse mode:
   argmin_i |x - 1/eps_i| over the materials ordered by ascending permittivity) followed by the
   straight-through estimator  x - stop_gradient(x) + stop_gradient(y), modelled with dual numbers.

   Property C19 (invariants on the output state):
     ShapeKept : the output has the input's shape
     Nearest   : every output voxel is the index of AN allowed value nearest to the input voxel
     GradOne   : d out[p] / d in[p] = 1  (gradients pass through unchanged)

   Variant selects the rule used by Apply:
     "spec"           the documented rule
     "component_axis" what the inverse mode did before the fix (see ClosestIndexDefs / notes/C19.md)
     "no_ste"         discrete value returned directly (gradient lost)
     "floor"          index mode rounds down instead of to nearest                                *)
EXTENDS ClosestIndexDefs, TLC

CONSTANTS MaxN,        \* index mode: number of materials ranges over 2..MaxN
          Shapes,      \* set of shapes used for every material set
          BigShapes,   \* additional (larger) shapes, used only for material sets of size <= BigN
          BigN,
          MatSets,     \* inverse mode: set of sequences of inverse permittivities (units 1/240), dictionary order
          Variant

VARIABLES mode, A, den, shape, inp, phase, oshape, out, der
vars == << mode, A, den, shape, inp, phase, oshape, out, der >>

\* material sets for the inverse mode, in units of 1/240:  eps 1 -> 240, 2 -> 120, 3 -> 80, 4 -> 60, 5 -> 48,
\* 8 -> 30, 16 -> 15, 1/2 -> 480.  Sequences are deliberately NOT sorted (material dictionaries are unordered).
MatSetsQ == { << 240, 120 >>, << 80, 240, 48 >>, << 30, 60, 120, 240 >>, << 240, 15, 60, 30, 120 >> }
MatSetsT == MatSetsQ \cup { << 60, 240 >>, << 120, 240, 60 >>, << 480, 240 >>, << 48, 80 >>, << 15, 240, 80 >>, << 480, 120, 30 >>,
                            << 240, 120, 80, 60, 48 >>, << 60, 15, 240, 480 >> }

\* shape sets (a .cfg cannot contain tuples): every rank 1..3 with singleton axes in every position
Shapes2  == { <<1>>, <<2>>, <<1,1>>, <<1,2>>, <<2,1>>, <<1,1,1>>, <<1,1,2>>, <<1,2,1>>, <<2,1,1>> }     \* <= 2 voxels
Shapes3  == { <<3>>, <<1,3>>, <<3,1>>, <<3,1,1>>, <<1,3,1>>, <<1,1,3>> }                               \* 3 voxels
Shapes4  == { <<2,2>>, <<4>>, <<1,2,2>>, <<2,1,2>>, <<2,2,1>> }                                        \* 4 voxels
Shapes23 == Shapes2 \cup Shapes3
ShapesNeg == { <<1>>, <<2>>, <<1,2>> }
MatSetsNeg == { << 240, 120 >>, << 60, 240, 120 >> }
NoShapes == { }

\* value grid of a voxel: the multiples of step from below the smallest to above the largest allowed value
\* (multiples of 15/240 = 1/16 are dyadic, i.e. exact float64 inputs for the real code)
Grid(a, margin, step) ==
    { x \in (MinOf(SeqRange(a)) - margin)..(MaxOf(SeqRange(a)) + margin) : x % step = 0 }

ShapesFor(n) == IF n <= BigN THEN Shapes \cup BigShapes ELSE Shapes

Init ==
    /\ \/ /\ mode = "index"   /\ den = 4
          /\ \E n \in 2..MaxN : A = IndexAllowed(n, 4)
          /\ shape \in ShapesFor(Len(A))
          /\ inp \in [ Positions(shape) -> Grid(A, 4, 1) ]              \* quarters from -1 to n
       \/ /\ mode = "inverse" /\ den = 240
          /\ \E invs \in MatSets : A = InvAllowed(invs)
          /\ shape \in ShapesFor(Len(A))
          /\ inp \in [ Positions(shape) -> Grid(A, 30, 15) ]            \* sixteenths
    /\ phase = "in" /\ oshape = << >> /\ out = << >> /\ der = << >>

N == Len(A)

Lookup(x) ==
    IF mode = "index"
    THEN IF Variant = "floor" THEN Clip(x \div den, 0, N - 1) ELSE ImplIndexMode(x, N, den)
    ELSE ImplInvMode(x, A)

\* one voxel through lookup + straight-through estimator; values in units of 1/den
Voxel(x) ==
    LET xd == Dual(x, 1)
        yd == Dual(Lookup(x) * den, 0)            \* argmin / round / clip have zero derivative
    IN  IF Variant = "no_ste" THEN yd ELSE STE(xd, yd)

Apply ==
    /\ phase = "in"
    /\ phase' = "out"
    /\ IF Variant = "component_axis" /\ mode = "inverse"
       THEN IF BuggyDefined(shape, N)
            THEN /\ oshape' = BuggyOutShape(shape, N)
                 /\ out' = [ p \in Positions(oshape') |-> 0 ]
                 /\ der' = [ p \in Positions(oshape') |-> 1 ]
            ELSE /\ oshape' = << -1 >> /\ out' = << >> /\ der' = << >>   \* broadcasting error: no result
       ELSE /\ oshape' = shape
            /\ out' = [ p \in Positions(shape) |-> Voxel(inp[p])[1] ]
            /\ der' = [ p \in Positions(shape) |-> Voxel(inp[p])[2] ]
    /\ UNCHANGED << mode, A, den, shape, inp >>

Next == Apply
Spec == Init /\ [][Next]_vars

\* ---------- properties ----------
TypeOK == /\ mode \in {"index", "inverse"} /\ phase \in {"in", "out"}
          /\ IsShape(shape) /\ N >= 2
          /\ \A i \in 1..(N - 1) : IF mode = "index" THEN A[i] < A[i + 1] ELSE A[i] > A[i + 1]

ShapeKept == phase = "out" => oshape = shape

\* out is in units of 1/den; the index is out \div den and must be exact
Nearest ==
    phase = "out" /\ oshape = shape =>
        \A p \in Positions(shape) : /\ out[p] % den = 0
                                    /\ (out[p] \div den) \in NearestSet(inp[p], A)

GradOne == phase = "out" /\ oshape = shape => \A p \in Positions(shape) : der[p] = 1

\* the implementation-shaped rule of the index mode is a nearest rule (sanity of the model itself)
RoundIsNearest ==
    mode = "index" => \A p \in Positions(shape) : ImplIndexMode(inp[p], N, den) \in NearestSet(inp[p], A)
===========================================================================
