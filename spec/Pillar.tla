------------------------------ MODULE Pillar ------------------------------
(* fdtdx.PillarDiscretization (objects/device/parameters/discretization.py) as a one-step machine

        phase "in" --Apply--> "out"

   Apply is shaped like the code: the allowed columns are BUILT the way compute_allowed_indices builds them
   (every assignment of non-background materials with the top i layers replaced by background, filtered for
   single_polymer_columns), and every column of the input (along the pillar axis) is replaced by a built
   column with minimal distance (argmin; ties: the code's candidate order is a Python set order, so any
   minimiser may come out - Apply is nondeterministic there).

   Property C24 (pillar part), invariants on the output state, stated with the DECLARATIVE set of allowed
   columns (background only at the top end; at most one non-background material when requested):
     ColumnsAllowed : every output column is an allowed column
     ColumnsNearest : no allowed column is strictly closer to the input column (configured distance)
   Variant: "spec" | "holes" (background may replace any layers) | "euclid_always" (metric option ignored)  *)
EXTENDS PillarDefs, TLC

CONSTANTS AxShapeSet,   \* set of << axis, shape >>
          InvSets,      \* set of sequences: inverse permittivities (units 1/8) by ORDERED material index
          Grid3, Grid4, \* input values per voxel for arrays of <= 3 / of 4 voxels
          Variant

VARIABLES invs, bg, single, metric, ax, shape, inp, phase, out
vars == << invs, bg, single, metric, ax, shape, inp, phase, out >>

\* eps 1, 2, 4, 8 -> 8, 4, 2, 1 (units 1/8); ordered by ascending permittivity = descending inverse
InvSetsQ == { << 8, 4 >>, << 8, 4, 2 >> }
InvSetsT == InvSetsQ \cup { << 8, 2, 1 >>, << 4, 1 >>, << 8, 4, 2, 1 >> }
AxShapesQ == { << 3, << 1, 1, 3 >> >>, << 1, << 2, 1, 1 >> >>, << 2, << 1, 2, 1 >> >>, << 3, << 2, 1, 2 >> >> }
AxShapesT == AxShapesQ \cup { << 1, << 3, 1, 1 >> >>, << 1, << 1, 1, 1 >> >>, << 2, << 1, 1, 2 >> >>, << 2, << 1, 3, 1 >> >>,
                              << 1, << 2, 2, 1 >> >>, << 3, << 1, 1, 4 >> >>, << 3, << 1, 1, 2 >> >> }
AxShapesNeg == { << 3, << 1, 1, 3 >> >>, << 2, << 1, 3, 1 >> >> }
GridQ3 == { 1, 3, 4, 6, 8 }
GridQ4 == { 1, 5, 8 }
GridT3 == { 0, 1, 2, 3, 4, 6, 8, 9 }
GridT4 == { 0, 2, 4, 8, 9 }

N == Len(invs)
L == shape[ax]

Init == /\ invs \in InvSets
        /\ bg \in 0..(Len(invs) - 1) /\ single \in BOOLEAN
        /\ metric \in { "euclidean", "permittivity_differences_plus_average_permittivity" }
        /\ \E as \in AxShapeSet : ax = as[1] /\ shape = as[2]
        /\ inp \in [ Positions(shape) -> IF Size(shape) <= 3 THEN Grid3 ELSE Grid4 ]
        /\ phase = "in" /\ out = << >>

Candidates == IF Variant = "holes" THEN [ 1..L -> 0..(N - 1) ] ELSE AllowedBuilt(L, N, bg, single)
UsedMetric == IF Variant = "euclid_always" THEN "euclidean" ELSE metric

Apply ==
    /\ phase = "in"
    /\ LET mins == TLCEval([ id \in ColumnIds(shape, ax) |->
                        Minimisers(UsedMetric, Column(inp, shape, ax, id), Candidates, invs, L) ])
       IN  \E ch \in [ ColumnIds(shape, ax) -> UNION { mins[id] : id \in ColumnIds(shape, ax) } ] :
              /\ \A id \in ColumnIds(shape, ax) : ch[id] \in mins[id]
              /\ out' = [ p \in Positions(shape) |-> ch[<< p[OtherAxes(ax)[1]], p[OtherAxes(ax)[2]] >>][p[ax]] ]
    /\ phase' = "out"
    /\ UNCHANGED << invs, bg, single, metric, ax, shape, inp >>

Next == Apply
Spec == Init /\ [][Next]_vars

\* ---------- properties ----------
TypeOK == /\ phase \in {"in", "out"} /\ ax \in 1..3 /\ IsShape(shape) /\ N >= 2 /\ bg \in 0..(N - 1)
          /\ \A i \in 1..(N - 1) : invs[i] > invs[i + 1]

\* the code's construction yields exactly the columns the property describes (checked once, for every column
\* height, material count, background index and option inside the bound)
MaxL == 4
MaxNMat == 4
ASSUME BuiltIsDeclared ==
    \A l \in 1..MaxL, n \in 2..MaxNMat, sp \in BOOLEAN : \A b \in 0..(n - 1) :
        AllowedBuilt(l, n, b, sp) = AllowedDecl(l, n, b, sp)

ColumnsAllowed ==
    phase = "out" => \A id \in ColumnIds(shape, ax) : Column(out, shape, ax, id) \in AllowedDecl(L, N, bg, single)

ColumnsNearest ==
    phase = "out" => \A id \in ColumnIds(shape, ax) :
        Column(out, shape, ax, id) \in Minimisers(metric, Column(inp, shape, ax, id), AllowedDecl(L, N, bg, single), invs, L)
===========================================================================
