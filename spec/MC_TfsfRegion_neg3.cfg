SPECIFICATION Spec
CONSTANTS N = 6  K = 3  Vals <- ValsPM  Amps = { 1, 3 }  Delays = { 0, 2 }  NSteps = 8  Variant = "face_off_by_one"  Origin = "entry"
INVARIANT OutsideZero
INVARIANT InsideIncident
CHECK_DEADLOCK FALSE
