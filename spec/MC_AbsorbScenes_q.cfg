SPECIFICATION Spec
CONSTANTS LossPerHit = 4  ChargeFree = TRUE  OpenFace = "none"  Transits = 4  StretchApplied = TRUE
INVARIANT TypeOK
INVARIANT QuietAbsorbed
INVARIANT DiffClause
PROPERTY PhaseMonotone
PROPERTY NoGrowth
CHECK_DEADLOCK FALSE
