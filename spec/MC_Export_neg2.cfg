SPECIFICATION Spec
CONSTANTS MaxN = 1  MaxC = 0  FullN = 2  SampleK = 1  SampleSet = "n"  Variant = "internal_faces"  AssertFaceConnectedSuffices = FALSE
INVARIANT TypeOK
INVARIANT XFastest
INVARIANT RoundTrip
INVARIANT OnLatticeInv
INVARIANT ExposedFacesOnlyInv
INVARIANT TriCount
INVARIANT OrientedInv
INVARIANT WatertightInv
INVARIANT FaceConnectedSuffices
INVARIANT FaceCountRule
CHECK_DEADLOCK FALSE
