SPECIFICATION Spec
CONSTANTS MaxN = 3  MaxC = 3  FullN = 2  SampleK = 1  SampleSet = "q"  Variant = "internal_faces"  AssertFaceConnectedSuffices = FALSE
INVARIANT TypeOK
INVARIANT XFastest
INVARIANT RoundTrip
INVARIANT OnLatticeInv
INVARIANT ExposedFacesOnlyInv
INVARIANT TriCount
INVARIANT OrientedInv
INVARIANT WatertightInv
INVARIANT FaceConnectedSuffices
INVARIANT FaceCountRule
CHECK_DEADLOCK FALSE
