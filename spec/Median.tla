------------------------------ MODULE Median ------------------------------
(* fdtdx.binary_median_filter (objects/device/parameters/binary_transform.py) with advanced_padding
   (core/misc.py) as a machine

        phase "in" --Pad--> "padded" --Filter--> "out"

   Pad    = advanced_padding: the six edges are padded one after the other (jnp.pad on the already
            padded array), remembering where the original array sits;
   Filter = box sum over the padded array (zero beyond it), divide by the kernel volume, round, slice.
   Initial states: ALL binary arrays on the shapes of the bound x odd kernels x padding configurations
   (uniform and per-edge mixed modes, incl. the two configurations the library itself defines).

   Property C24 (median part), invariant on the output state:
     MajorityOK : out[p] = majority value of the odd box neighbourhood of p, where positions outside the
                  array take the value given by the closed-form padding rule MedianDefs!PadVal.
   Variant: "spec" | "no_offset" (original slice taken without the low-side offset)
                   | "corner_first_axis" (corners of constant padding resolved first-axis-first)      *)
EXTENDS MedianDefs, TLC

CONSTANTS ShapeSet, KernelSet, CfgSet, Variant

VARIABLES shape, ks, cfg, inp, phase, ext, out
vars == << shape, ks, cfg, inp, phase, ext, out >>

\* ---- finite sets for the .cfg files (a .cfg cannot contain tuples / records)
NoVals == << >>
Cfgs == {
    [ widths |-> << 1 >>, modes |-> << "edge" >>, values |-> NoVals ],
    [ widths |-> << 2 >>, modes |-> << "constant" >>, values |-> << 1 >> ],
    [ widths |-> << 1 >>, modes |-> << "constant" >>, values |-> NoVals ],
    \* the library's BOTTOM_Z_PADDING_CONFIG_REPEAT / BOTTOM_Z_PADDING_CONFIG (widths shortened)
    [ widths |-> << 2 >>, modes |-> << "edge", "edge", "edge", "edge", "constant", "edge" >>, values |-> << 1 >> ],
    [ widths |-> << 1 >>, modes |-> << "constant", "constant", "constant", "constant", "constant", "constant" >>,
      values |-> << 1, 0, 1, 1, 1, 0 >> ],
    [ widths |-> << 1, 2, 1, 1, 2, 1 >>, modes |-> << "reflect", "symmetric", "edge", "constant", "symmetric", "reflect" >>,
      values |-> << 0, 0, 0, 1, 0, 0 >> ],
    [ widths |-> << 1 >>, modes |-> << "symmetric" >>, values |-> NoVals ],
    [ widths |-> << 1 >>, modes |-> << "reflect" >>, values |-> NoVals ],
    [ widths |-> << 1, 1, 2, 1, 1, 2 >>, modes |-> << "constant", "edge", "constant", "constant", "edge", "constant" >>,
      values |-> << 1, 0, 0, 1, 0, 1 >> ] }
CfgsNeg == { c \in Cfgs : c.widths = << 2 >> \/ Len(c.values) = 6 }
ShapesQ == { << 3, 2, 1 >>, << 2, 2, 2 >>, << 1, 1, 3 >> }
ShapesT == ShapesQ \cup { << 2, 1, 3 >>, << 3, 3, 1 >>, << 1, 4, 1 >>, << 1, 3, 3 >>, << 3, 1, 3 >>, << 4, 1, 1 >>, << 1, 1, 1 >> }
ShapesNeg == { << 2, 2, 2 >> }
KernelsQ == { << 3, 3, 1 >>, << 3, 3, 3 >>, << 1, 1, 3 >> }
KernelsT == { << a, b, c >> : a \in {1, 3}, b \in {1, 3}, c \in {1, 3} } \cup { << 5, 1, 1 >>, << 1, 5, 3 >>, << 3, 1, 5 >> }
KernelsNeg == { << 3, 3, 3 >>, << 3, 3, 1 >> }

Init == /\ shape \in ShapeSet /\ ks \in KernelSet /\ OddKernel(ks)
        /\ \E c \in CfgSet : cfg = ExpandCfg(c)
        /\ ValidCfg(cfg, shape) /\ Sufficient(cfg, ks)
        /\ inp \in [ Positions(shape) -> {0, 1} ]
        /\ phase = "in" /\ ext = << >> /\ out = << >>

\* corners resolved the other way round: pad the LAST axis first (only differs for per-edge constants)
RECURSIVE PadEdgesRev(_, _, _)
PadEdgesRev(E, c, k) == IF k < 1 THEN E ELSE PadEdgesRev(PadEdge(PadEdge(E, c, 2 * k - 1), c, 2 * k), c, k - 1)

Pad == /\ phase = "in"
       /\ ext' = IF Variant = "corner_first_axis" THEN PadEdgesRev(ExtOf(inp, shape), cfg, 3) ELSE PadAll(inp, shape, cfg)
       /\ phase' = "padded"
       /\ UNCHANGED << shape, ks, cfg, inp, out >>

Filter == /\ phase = "padded"
          /\ out' = FilterExt(ext, shape, ks, IF Variant = "no_offset" THEN [ k \in 1..3 |-> ext.lo[k] - 1 ] ELSE << 0, 0, 0 >>)
          /\ phase' = "out"
          /\ UNCHANGED << shape, ks, cfg, inp, ext >>

Next == Pad \/ Filter
Spec == Init /\ [][Next]_vars

\* ---------- properties ----------
TypeOK == /\ phase \in {"in", "padded", "out"} /\ IsShape(shape) /\ OddKernel(ks)
          /\ phase # "in" => \A k \in 1..3 : /\ ext.lo[k] = 1 - cfg.widths[2 * k - 1]
                                             /\ ext.hi[k] = shape[k] + cfg.widths[2 * k]

\* the padded array built edge by edge IS the closed form (on every extended position)
PadAgrees == phase # "in" => \A q \in ExtPositions(ext.lo, ext.hi) : ext.f[q] = PadVal(inp, shape, cfg, q)

\* C24: majority of the odd box neighbourhood under the configured padding
MajorityOK == phase = "out" => out = MedianOnce(inp, shape, cfg, ks)
===========================================================================
