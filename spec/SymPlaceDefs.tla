-------------------------- MODULE SymPlaceDefs --------------------------
(* Pure per-axis rules of mirror-symmetric placement (fdtd/symmetry.py reduce_resolved_slices,
   make_symmetry_walls; core/misc.py validate_symmetric_axis_cells), shared by SymPlace.tla and
   Trace_SymPlace.tla.  An axis of the full volume has n cells 0..n-1; an interval <<s,e>> covers the
   cells s..e-1; sym is 0 (none), -1 (electric plane, PEC) or 1 (magnetic plane, PMC).

   Two formulations are given: the ARITHMETIC one (what the code computes: max/min/shift) and the
   DECLARATIVE one (cell sets: "keep the upper half, clip every object to it, shift by the plane
   index").  SymPlace.tla proves them equal inside its bounds.                                    *)
EXTENDS Integers, Sequences, FiniteSets, TLC

Max2(a, b) == IF a >= b THEN a ELSE b
Min2(a, b) == IF a <= b THEN a ELSE b
Intervals(n) == { iv \in (0..(n-1)) \X (1..n) : iv[1] < iv[2] }
CellsOf(iv) == iv[1] .. (iv[2] - 1)

\* ---------- arithmetic formulation (code shaped) ----------
AxisOK(n, sym) == sym = 0 \/ (n >= 2 /\ n % 2 = 0)          \* even cell count required on a symmetric axis
Plane(n, sym)  == IF sym = 0 THEN 0 ELSE n \div 2           \* index of the symmetry plane = shift full -> reduced
RedVol(n, sym) == IF sym = 0 THEN << 0, n >> ELSE << 0, n - Plane(n, sym) >>
\* variant "code" is the rule; the others are deliberately wrong (negative instances)
ClipIv(iv, n, sym, variant) ==
    IF sym = 0 THEN iv
    ELSE LET m == Plane(n, sym) IN
         CASE variant = "lower_half" -> << Min2(iv[1], m), Min2(iv[2], m) >>              \* keeps the LOWER half
           [] variant = "no_shift"   -> << Max2(iv[1], m), Min2(iv[2], n) >>              \* forgets the shift
           [] OTHER                  -> << Max2(iv[1], m) - m, Min2(iv[2], n) - m >>
DropAxis(iv, n, sym, variant) == sym # 0 /\ ClipIv(iv, n, sym, variant)[2] <= ClipIv(iv, n, sym, variant)[1]
UnclippedIv(iv, n, sym) == << iv[1] - Plane(n, sym), iv[2] - Plane(n, sym) >>
WallAxes(sym3, variant) == IF variant = "wall_any" THEN { a \in 1..3 : sym3[a] # 0 } ELSE { a \in 1..3 : sym3[a] = -1 }
WallSlice(a, redshape) == [ b \in 1..3 |-> IF b = a THEN << 0, 1 >> ELSE << 0, redshape[b] >> ]

\* ---------- declarative formulation (the property's words) ----------
KeptCells(n, sym)  == IF sym = 0 THEN 0..(n-1) ELSE (n \div 2)..(n-1)                     \* the upper half
ClippedCells(iv, n, sym) == { c - Plane(n, sym) : c \in CellsOf(iv) \cap KeptCells(n, sym) }
InLowerHalf(iv, n, sym)  == sym # 0 /\ CellsOf(iv) \cap KeptCells(n, sym) = {}
ShiftedCells(iv, n, sym) == { c - Plane(n, sym) : c \in CellsOf(iv) }
=========================================================================
