--------------------------- MODULE Materials ---------------------------
(* Material descriptions of fdtdx (materials.py) as a state machine: a dictionary of materials is built one
   entry at a time; every entry is entered in any of the four input formats and stored in normal form
   (Material.__init__ -> _normalize_material_property); the per-property lists that the rest of the library
   indexes by "material number" are derived from the dictionary (compute_allowed_permittivities, ..._permeabilities,
   ..._electric_conductivities, ..._magnetic_conductivities, compute_ordered_names).

       Add(name, inputs)   == materials[name] = Material(permittivity=..., permeability=..., ...)

   Property C39:
       NormalForm          the stored 9-tuple represents the tensor the input denotes, whatever the format
       FormatIndependent   two inputs that denote the same tensor are stored identically
       PredicatesAgree     is_isotropic_* / is_diagonally_anisotropic_* (evaluated on the stored tuple the way the
                           code does) say what is true of the denoted tensor
       CommonOrder         there is ONE permutation of the dictionary along which every list is laid out
   (the complex-permittivity round trip is numeric and only trace-monitored, see Trace_Materials.tla)        *)
EXTENDS MaterialsDefs

CONSTANTS Vals,          \* diagonal values of the permittivity tensors that are enumerated
          MaxMats,       \* size of the dictionary
          AllFormatsUpTo,\* dictionary positions 1..AllFormatsUpTo are entered in EVERY applicable format; later positions
                         \* only as 9-tuples (formats are a per-material matter, and every PAIR of inputs is compared by
                         \* FormatIndependent over the whole universe anyway; ordering only depends on the stored tuples)
          NormVariant,   \* "rowmajor" (design) | "colmajor" | "diag_bcast" (negative instances)
          SortVariant    \* "common" (design) | "own_key" (negative: every list sorted by its own first component)

VARIABLES dict           \* sequence of [name, src (the four inputs as entered), m (the four stored tuples)]
vars == << dict >>

\* ---------- the finite universe of inputs ----------
WithEntry(t, k, x) == [ t EXCEPT ![k] = x ]
EpsTensors == { << a, 0, 0, 0, b, 0, 0, 0, c >> : a \in Vals, b \in Vals, c \in Vals }
              \cup { WithEntry(Identity9(1), k, 1) : k \in { 2, 4, 7 } }
Nested(t) == << << t[1], t[2], t[3] >>, << t[4], t[5], t[6] >>, << t[7], t[8], t[9] >> >>
InputsOf(t) == { [ fmt |-> "flat9", v |-> t ], [ fmt |-> "nested", v |-> Nested(t) ] }
               \cup (IF TupleIsDiagonal(t) THEN { [ fmt |-> "diag3", v |-> << t[1], t[5], t[9] >> ] } ELSE {})
               \cup (IF TupleIsIsotropic(t) THEN { [ fmt |-> "scalar", v |-> << t[1] >> ] } ELSE {})
EpsInputs == UNION { InputsOf(t) : t \in EpsTensors }
MuInputs  == { [ fmt |-> "scalar", v |-> << 1 >> ], [ fmt |-> "scalar", v |-> << 2 >> ], [ fmt |-> "diag3", v |-> << 1, 2, 1 >> ] }
SeInputs  == { [ fmt |-> "scalar", v |-> << 0 >> ], [ fmt |-> "scalar", v |-> << 1 >> ] }
SmInputs  == { [ fmt |-> "scalar", v |-> << 0 >> ] }
NameOf(k) == << "m1", "m2", "m3", "m4" >>[k]

\* ---------- the implementation, modelled ----------
Store(src) == [ eps |-> Normalize(src.eps, NormVariant), mu |-> Normalize(src.mu, NormVariant),
                se  |-> Normalize(src.se, NormVariant),  sm |-> Normalize(src.sm, NormVariant) ]

Init == dict = << >>
Add(e, u, s, t) ==
    /\ Len(dict) < MaxMats
    /\ LET src == [ eps |-> e, mu |-> u, se |-> s, sm |-> t ]
       IN  dict' = Append(dict, [ name |-> NameOf(Len(dict) + 1), src |-> src, m |-> Store(src) ])
EpsInputsAt(k) == IF k <= AllFormatsUpTo THEN EpsInputs ELSE { [ fmt |-> "flat9", v |-> x ] : x \in EpsTensors }
Next == \E e \in EpsInputsAt(Len(dict) + 1), u \in MuInputs, s \in SeInputs, t \in SmInputs : Add(e, u, s, t)
Spec == Init /\ [][Next]_vars

\* what the list functions return (every one of them sorts the dictionary itself)
OrderFor(p) == IF SortVariant = "common" THEN Order(dict)
               ELSE CASE p = "eps" -> OrderBy(dict, LAMBDA m : << m.eps[1] >>)
                      [] p = "mu"  -> OrderBy(dict, LAMBDA m : << m.mu[1] >>)
                      [] p = "se"  -> OrderBy(dict, LAMBDA m : << m.se[1] >>)
                      [] OTHER     -> OrderBy(dict, LAMBDA m : << m.sm[1] >>)
\* (the order is bound ONCE through a singleton set: TLC passes operator arguments unevaluated, and `ord[r]` inside ListAlong
\* would otherwise sort the dictionary again for every element of every list)
AllowedList(p, md) == CHOOSE l \in { ListAlong(dict, o, p, md) : o \in { OrderFor(p) } } : TRUE
OrderedNames == CHOOSE l \in { NamesAlong(dict, o) : o \in { Order(dict) } } : TRUE

\* ---------- properties ----------
TypeOK == /\ Len(dict) <= MaxMats
          /\ \A k \in 1..Len(dict) : \A q \in 1..4 : FormatOK(dict[k].src[Props[q]]) /\ Len(dict[k].m[Props[q]]) = 9

\* The per-entry invariants look at the entry appended LAST only.  This loses nothing: the state space is prefix-closed
\* (a dictionary is only ever reached from its own prefix, and TLC checks every reachable state), so entry k was examined
\* in the state in which it was appended, and every pair (k1, k2) in the state in which the later of the two was appended.
Newest == IF Len(dict) = 0 THEN {} ELSE { Len(dict) }

NormalForm == \A k \in Newest : \A q \in 1..4 : Represents(dict[k].m[Props[q]], dict[k].src[Props[q]])

FormatIndependent ==
    /\ \A k2 \in Newest : \A k1 \in 1..Len(dict) : \A q1 \in 1..4, q2 \in 1..4 :
          SameTensor(dict[k1].src[Props[q1]], dict[k2].src[Props[q2]]) => dict[k1].m[Props[q1]] = dict[k2].m[Props[q2]]
    \* and over the whole input universe, once
    /\ dict = << >> => \A a \in EpsInputs, b \in EpsInputs : SameTensor(a, b) => Normalize(a, NormVariant) = Normalize(b, NormVariant)

PredicatesAgree ==
    \A k \in Newest : \A q \in 1..4 :
        LET t == dict[k].m[Props[q]]  inp == dict[k].src[Props[q]]
        IN  /\ TupleIsIsotropic(t) = TensorIsIsotropic(inp)
            /\ TupleIsDiagonal(t)  = TensorIsDiagonal(inp)
            /\ (TupleIsIsotropic(t) => TupleIsDiagonal(t))

Perms(n) == { f \in [ 1..n -> 1..n ] : { f[r] : r \in 1..n } = 1..n }
\* everything the implementation returns in this state, computed once: the name list and the 12 property lists
Returned == [ names |-> OrderedNames, lists |-> [ q \in 1..4 |-> [ md \in 1..3 |-> AllowedList(Props[q], Modes[md]) ] ] ]
CommonOrder ==
    \E ret \in { Returned } :
    \E ord \in Perms(Len(dict)) :
        /\ ret.names = NamesAlong(dict, ord)
        /\ \A q \in 1..4, md \in 1..3 : ret.lists[q][md] = ListAlong(dict, ord, Props[q], Modes[md])

\* the documented order: ascending in (eps_xx, mu_xx, se_xx, sm_xx), every material exactly once
SortedOrder == \E o \in { Order(dict) } : IsPermutation(o, Len(dict)) /\ NonDecreasing(dict, o)
=======================================================================
