SPECIFICATION Spec
CONSTANTS L = 4  IsoTest = "full"  Variant = "stable"  NObj = 4  Family = "small"
INVARIANT TypeOK
INVARIANT PainterRule
INVARIANT PrefixRule
INVARIANT VolumeFirst
INVARIANT TiersWidest
INVARIANT ScalarMu
PROPERTY OnlyUpwards
CHECK_DEADLOCK FALSE
