SPECIFICATION Spec
CONSTANTS Vals = {1, 2}  MaxMats = 3  AllFormatsUpTo = 2  NormVariant = "rowmajor"  SortVariant = "common"
INVARIANT TypeOK
INVARIANT NormalForm
INVARIANT FormatIndependent
INVARIANT PredicatesAgree
INVARIANT CommonOrder
INVARIANT SortedOrder
CHECK_DEADLOCK FALSE
