SPECIFICATION Spec
CONSTANTS N = 7  Rule = "share_cell"  Scene = "reps"
INVARIANT TypeOK
INVARIANT StateIsFresh
INVARIANT AllValid
INVARIANT AppliedOnce
PROPERTY NoApplyDuringParams
CHECK_DEADLOCK FALSE
