SPECIFICATION Spec
CONSTANTS MaxN = 2  Variant = "mean_unweighted"
INVARIANT MeanIdentity
INVARIANT MeanOfConstant
INVARIANT EnergyIdentity
INVARIANT FluxIdentities
INVARIANT ClosedIdentity
INVARIANT ThinAxisCancels
INVARIANT Extensive
CHECK_DEADLOCK FALSE
