SPECIFICATION Spec
CONSTANTS
  N = 4
  BaseEps <- One
  MatEps <- Eps124
  PVals <- P012
  MaxHist = 2
  Backup = "any"
  Scenes <- Twin
  DispWrite = "every"
  MatTable = "own"
INVARIANT TypeOK
INVARIANT DeviceCells
INVARIANT Range
INVARIANT DiscreteExact
INVARIANT OutsideUnchanged
INVARIANT HistoryIndependent
INVARIANT DispCells
INVARIANT DispOutsideUnchanged
CHECK_DEADLOCK TRUE
