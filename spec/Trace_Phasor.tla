------------------------- MODULE Trace_Phasor -------------------------
(* Validates executions of the REAL phasor detectors of /repo/src (PhasorDetector, PhasorPoyntingFluxDetector,
   ClosedSurfacePhasorPoyntingFluxDetector: place_on_grid, update, compute_poynting_flux, compute_net_flux)
   against Phasor.tla / PhasorDefs.tla.

   A case is one recording run with an integer field history F[t][comp 1..6][i][j][k] over the detector
   region and frequencies omega_f * dt = q[f] * pi / 2.  Static part of the record (read from the placed
   detector): base on-list of the switch, kept = the detector's own on-mask, stride, win4 = 4 * window(t * dt)
   from the window function, dw4 = 4 * the detector's per-step weight table, wsum4 = 4 * its window sum.
   Events: one per update() call (the harness calls update exactly when the detector's on-mask says so, as
   update_detector_states does), carrying the stored state afterwards as blocks of Gaussian integers
   st[block][f][c][i][j][k] = <<re, im>>.  This spec keeps its own accumulator, advanced by the Record
   action of Phasor.tla for every frequency / stored component / cell, and compares after every event.
   At the end the Poynting flux returned by the detector (x2, integer) is compared with
   Re(E x conj H) of the spec's phasors, area weighted over the plane / closed surface.              *)
EXTENDS Integers, Sequences, FiniteSets, TLC, TLCExt, Json, IOUtils

P == INSTANCE PhasorDefs

Cases == JsonDeserialize(IOEnv.TRACE_FILE)
VARIABLES ci, l, stn, bad
tvars == << ci, l, stn, bad >>
C == Cases[ci]

Names == << "Ex", "Ey", "Ez", "Hx", "Hy", "Hz" >>
\* stored components: canonical order restricted to the configured set (whatever order the user gave)
StoredIdx(c) == SelectSeq(<< 1, 2, 3, 4, 5, 6 >>, LAMBDA k : \E m \in 1..Len(c.components) : c.components[m] = Names[k])
Steps(c) == 0..(c.T - 1)
Fn(seq, T) == [ t \in 0..(T - 1) |-> seq[t + 1] ]
KeptSet(c) == { t \in Steps(c) : c.kept[t + 1] }
DocKept(c) == P!Kept(Fn(c.base, c.T), c.T, c.stride)
ScaleNum(c) == IF c.mode = "continuous" THEN 2 ELSE c.stride
Den(c) == IF c.mode = "continuous" THEN P!WSum4(Fn(c.win4, c.T), DocKept(c), c.T) ELSE 4
Cells(n) == (0..(n[1] - 1)) \X (0..(n[2] - 1)) \X (0..(n[3] - 1))
Keys(c) == (1..Len(c.q)) \X (1..Len(StoredIdx(c))) \X Cells(c.n)
FAt(c, t, comp, cell) == c.F[t + 1][comp][cell[1] + 1][cell[2] + 1][cell[3] + 1]
Fresh(c) == [ k \in Keys(c) |-> P!CZero ]

\* ---- static clauses (placement)
Static(c) ==
    IF \E t \in 1..c.T : c.win4[t] < 0 THEN "window: negative window weight"
    ELSE IF c.wdev > c.tol THEN "malformed: window weights are not multiples of 1/4"
    ELSE IF c.stride # (IF c.stride_in >= 1 THEN c.stride_in ELSE 1) THEN "stride: resolved stride differs from dft_subsample"
    ELSE IF KeptSet(c) # DocKept(c) THEN "kept: recorded steps are not every stride-th active step"
    ELSE IF \E t \in Steps(c) : c.dw4[t + 1] # (IF t \in DocKept(c) THEN c.win4[t + 1] ELSE 0)
         THEN "window: detector weight table is not window(t) on the recorded steps and 0 elsewhere"
    ELSE IF c.wsum4 # P!WSum4(Fn(c.win4, c.T), DocKept(c), c.T) THEN "scale: window sum is not the sum over the recorded steps"
    ELSE IF Den(c) <= 0 THEN "malformed: window sums to zero"
    ELSE ""

\* ---- one update() call = Record action of Phasor.tla on every (frequency, component, cell)
StepAcc(c, acc, t) ==
    [ k \in Keys(c) |->
        LET inc == P!CScale(ScaleNum(c) * c.win4[t + 1] * FAt(c, t, StoredIdx(c)[k[2]], k[3]), P!Rot(c.q[k[1]], t))
        IN  IF t \in DocKept(c) THEN (IF c.inverse THEN P!CSub(acc[k], inc) ELSE P!CAdd(acc[k], inc)) ELSE acc[k] ]

\* implementation state of block b equals the accumulator (st * Den = stn) on the block's cells
BlockOK(c, e, acc) ==
    \A b \in 1..Len(c.blocks) :
        LET lo == c.blocks[b].lo  n == c.blocks[b].n IN
        \A f \in 1..Len(c.q), cc \in 1..Len(StoredIdx(c)), p \in Cells(n) :
            LET v == e.st[b][f][cc][p[1] + 1][p[2] + 1][p[3] + 1] IN
            P!CScale(Den(c), << v[1], v[2] >>) = acc[ << f, cc, << lo[1] + p[1], lo[2] + p[2], lo[3] + p[3] >> >> ]

\* ---- Poynting flux of the final phasors
Phasors(c, acc, f, cell) == [ k \in 1..6 |-> << acc[ << f, k, cell >> ][1] \div Den(c), acc[ << f, k, cell >> ][2] \div Den(c) >> ]
Divisible(c, acc) == \A k \in Keys(c) : acc[k][1] % Den(c) = 0 /\ acc[k][2] % Den(c) = 0
Area(c, a, cell) == LET j == (a + 1) % 3  k == (a + 2) % 3 IN c.widths[j + 1][cell[j + 1] + 1] * c.widths[k + 1][cell[k + 1] + 1]
RECURSIVE SumSet(_, _)
SumSet(S, f) == IF S = {} THEN 0 ELSE LET x == CHOOSE x \in S : TRUE IN f[x] + SumSet(S \ {x}, f)
\* twice the documented flux (x 1/2 in continuous mode) through the cell set S along axis a
Flux2(c, acc, f, a, S) ==
    (IF c.mode = "continuous" THEN 1 ELSE 2) * SumSet(S, [ cell \in S |-> Area(c, a, cell) * P!PoyntingRe(Phasors(c, acc, f, cell), a) ])
Face(c, a, side) == { cell \in Cells(c.n) : cell[a + 1] = (IF side = "min" THEN 0 ELSE c.n[a + 1] - 1) }
FluxOK(c, acc) ==
    IF c.flux.kind = "none" THEN TRUE
    ELSE IF c.flux.kind = "plane" THEN
        \A f \in 1..Len(c.q), m \in 1..Len(c.flux.axes) :
            c.flux.vals2[f][m] = c.flux.sign * Flux2(c, acc, f, c.flux.axes[m], Cells(c.n))
    ELSE \* closed surface: outward normal = +a on the max face, -a on the min face
        \A f \in 1..Len(c.q) :
            c.flux.vals2[f][1] = c.flux.sign *
                SumSet({ a \in 0..2 : \E m \in 1..Len(c.flux.axes) : c.flux.axes[m] = a },
                       [ a \in 0..2 |-> Flux2(c, acc, f, a, Face(c, a, "max")) - Flux2(c, acc, f, a, Face(c, a, "min")) ])

Note(cl) == IF bad = "" THEN cl ELSE bad

TInit == /\ ci = 1 /\ l = 1 /\ bad = ""
         /\ stn = IF Len(Cases) >= 1 THEN Fresh(Cases[1]) ELSE << >>
         /\ TLCSet(1, << >>)

UpdateEv ==
    LET e == C.events[l]  acc == StepAcc(C, stn, e.t) IN
    /\ stn' = acc
    /\ bad' = IF ~(e.t \in Steps(C)) \/ (l > 1 /\ C.events[l - 1].t >= e.t) THEN Note("malformed: event order")
              ELSE IF e.dev > C.tol THEN Note("dft: stored phasor is not integer valued although the scaled windowed DFT is")
              ELSE IF ~BlockOK(C, e, acc) THEN Note("dft: stored phasor differs from scale * sum over recorded steps of window * field * exp(i omega t)")
              ELSE bad
    /\ l' = l + 1 /\ ci' = ci

Final(c) ==
    IF c.refused THEN (IF P!WSum4(Fn(c.win4, c.T), DocKept(c), c.T) <= 0 THEN "ok"
                       ELSE "refuse: placement refused a window whose sum over the recorded steps is positive")
    ELSE IF Static(c) # "" THEN Static(c)
    ELSE IF bad # "" THEN bad
    ELSE IF Len(c.events) # Cardinality(DocKept(c)) THEN "kept: number of update calls differs from the number of recorded steps"
    ELSE IF c.flux.kind = "none" THEN "ok"
    ELSE IF ~Divisible(c, stn) THEN "malformed: phasors are not integers"
    ELSE IF c.flux.dev > c.tol THEN "flux: returned flux is not (half-)integer valued although Re(E x conj H) of the phasors is"
    ELSE IF ~FluxOK(c, stn) THEN "flux: returned flux differs from area-weighted Re(E x conj H) of the windowed-DFT phasors"
    ELSE "ok"

NextCase ==
    /\ l > Len(C.events)
    /\ TLCSet(1, Append(TLCGet(1), [ id |-> C.id, v |-> Final(C) ]))
    /\ ci' = ci + 1 /\ l' = 1 /\ bad' = ""
    /\ stn' = IF ci + 1 <= Len(Cases) THEN Fresh(Cases[ci + 1]) ELSE << >>

TNext == /\ ci <= Len(Cases)
         /\ IF l > Len(C.events) THEN NextCase ELSE UpdateEv
TSpec == TInit /\ [][TNext]_tvars
Post == ndJsonSerialize(IOEnv.VERDICT_FILE, TLCGet(1))
=======================================================================
