SPECIFICATION Spec
CONSTANTS
  Shapes <- ShapesQ2
  Modes = { "material" }
  Loop = "fixpoint"
  Seed = "bottom"
  Filter <- AnyDesign
INVARIANT TypeOK
INVARIANT RankWitness
INVARIANT TerminalClosed
INVARIANT TerminalIsReach
INVARIANT RemoveCorrect
INVARIANT RoundsBounded
PROPERTY GrowOnly
CHECK_DEADLOCK TRUE
