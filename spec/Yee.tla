-------------------------------- MODULE Yee --------------------------------
(* One Yee time step of fdtdx (fdtd/forward.py forward, fdtd/backward.py backward, fdtd/update.py) as a state
   machine in exact integer arithmetic on a small 3-D lattice.  One action per code-level sub-step:

     PrimeHp   H one half-step earlier, through the code's own reverse H update (only to define the energy at t = 0)
     UpdateE   E += c inv_eps curl_H(H) (backward differences, boundary halo), lossy factor, source injection
     WallE     PEC: tangential E zeroed on the face layer                         (apply_boundary_post_E_update)
     UpdateH   H -= c inv_mu curl_E(E) (forward differences), source injection at the half step
     WallH     PMC: tangential H zeroed on the face layer ; time_step + 1         (apply_boundary_post_H_update)
     RevH, RevHWall, RevE, RevEWall   backward(): update_H_reverse then update_E_reverse at time_step - 1

   The state holds a SEQUENCE of runs on the same configuration (1 run: C01, C02; 3 runs A, B, alpha A + beta B:
   C10; a real-storage run and a complex-storage run: C11); every action advances all runs.

   Properties:  EnergyBalance / NeverIncreases (C01), ReverseExact (C02), Linear (C10), RealStaysReal (C11).
   TLC enumerates configurations (lattice shape, boundary kind per axis, material / conductivity / cell-width
   patterns, source sets) and initial states (basis vectors, pairs of basis vectors: by polarisation the quadratic
   energy identity then holds for every state).
   Variant # "ok" selects a deliberately wrong step (negative instances).                                    *)
EXTENDS YeeDefs

CONSTANTS Mode,        \* "energy" | "reverse" | "linear" | "complex"
          Variant,     \* "ok" | "curl_sign" | "shift" | "pec_normal" | "metric_primal" | "rev_nofactor" | "rev_noadj" | "cplx_quad" | "lin_double"
          Family,      \* which boundary configurations: "sweep" | "mixed" | "full" | "list"
          List,        \* Family = "list": set of codes 1000000 shape + 10000 kx + 100 ky + kz (shape 1..3 = long axis)
          Steps,       \* forward steps per behaviour (energy / linear / complex), run length T (reverse)
          PairMod,     \* energy mode: first unit index i restricted to multiples of PairMod (1 = all pairs)
          Extra        \* set of codes 1000 mat + 100 loss + 10 wpat + srcset combined with the boundary configurations

VARIABLES g,           \* compiled configuration (constant along a behaviour)
          r,           \* sequence of run states
          t,           \* time step index
          pc,          \* next sub-step
          prev,        \* run 1 at the previous step boundary (energy mode), else << >>
          s0,          \* run 1 at the start (reverse mode), else << >>
          ab           \* <<alpha, beta>> (linear mode)
vars == << g, r, t, pc, prev, s0, ab >>

\* ------------------------------------------------------------ configurations
Shapes == { << 3, 2, 2 >>, << 2, 3, 2 >>, << 2, 2, 3 >> }
\* axis kinds 1..13:  1 periodic, 2..4 Bloch with phase i, -1, -i,  5 + 3 lo + hi with lo, hi in 0 halo | 1 PEC | 2 PMC
Kinds == 1..13
KWrap(k) == k <= 4
KPh(k)   == IF k <= 4 THEN k - 1 ELSE 0
KLo(k)   == IF k <= 4 THEN 0 ELSE (k - 5) \div 3
KHi(k)   == IF k <= 4 THEN 0 ELSE (k - 5) % 3

MatVal(m) == CASE m = 0 -> 1 [] m = 1 -> 2 [] OTHER -> 4
Ie2Pat(N, mat) == [ i \in 1..NF(N) |-> IF mat = 0 THEN 2
                      ELSE LET c == Comp(N, i)  p == Pos(N, i) IN MatVal((c + p[1] + 2 * p[2] + 3 * p[3]) % 3) ]
Im2Pat(N, mat) == [ i \in 1..NF(N) |-> IF mat = 0 THEN 2
                      ELSE LET c == Comp(N, i)  p == Pos(N, i) IN MatVal((2 * c + p[1] + p[2] + p[3] + 1) % 3) ]
LossPat(N, lp) == [ i \in 1..NF(N) |-> IF lp = 0 THEN 0
                      ELSE LET c == Comp(N, i)  p == Pos(N, i) IN IF (c + p[1] + p[2] + p[3]) % 2 = 0 THEN 1 ELSE 0 ]
WPat(N, wp) == [ a \in 1..3 |-> [ k \in 1..N[a] |-> IF wp = 0 THEN 1 ELSE 1 + ((k + a) % 2) ] ]
\* source sets (run length 3): time tables J are indexed by the on-index + 1
SrcSet(N, ss) ==
    CASE ss = 0 -> << >>
      [] ss = 1 -> << [ kind |-> "E", i |-> Ix(N, 1, << 1, 0, 1 >>), on |-> << TRUE, TRUE, TRUE >>, J |-> << 1, -2, 3 >> ] >>
      [] ss = 2 -> << [ kind |-> "E", i |-> Ix(N, 3, << 0, 1, 0 >>), on |-> << FALSE, TRUE, TRUE >>, J |-> << 3, -1, 2 >> ],
                      [ kind |-> "H", i |-> Ix(N, 2, << 1, 1, 1 >>), on |-> << TRUE, FALSE, TRUE >>, J |-> << 1, 2, -3 >> ] >>
      [] OTHER  -> << [ kind |-> "H", i |-> Ix(N, 1, << 0, 0, 1 >>), on |-> << TRUE, TRUE, FALSE >>, J |-> << 2, 1, 1 >> ],
                      [ kind |-> "E", i |-> Ix(N, 2, << 1, 0, 0 >>), on |-> << TRUE, FALSE, TRUE >>, J |-> << -1, 4, 2 >> ] >>

MkCfg(N, k, x) == Compile(
    [ N |-> N,
      wrap |-> [ a \in 1..3 |-> KWrap(k[a]) ],
      ph   |-> [ a \in 1..3 |-> KPh(k[a]) ],
      pec  |-> [ a \in 1..3 |-> << KLo(k[a]) = 1, KHi(k[a]) = 1 >> ],
      pmc  |-> [ a \in 1..3 |-> << KLo(k[a]) = 2, KHi(k[a]) = 2 >> ],
      ie2  |-> Ie2Pat(N, x[1]), im2 |-> Im2Pat(N, x[1]), loss |-> LossPat(N, x[2]), w |-> WPat(N, x[3]),
      src  |-> SrcSet(N, x[4]), variant |-> Variant ])

\* boundary-kind triples per family.  "sweep": the long axis of the shape runs through all 13 kinds, the other two
\* axes carry a fixed background; "mixed": a fixed list of combinations; "full": everything.
LongAxis(N) == CHOOSE a \in 1..3 : N[a] = 3
Sweep(N) == { kk \in [ 1..3 -> Kinds ] : \A a \in 1..3 : a # LongAxis(N) => kk[a] = (IF a = A1(LongAxis(N)) THEN 1 ELSE 8) }
Mixed(N) == { << 2, 9, 10 >>, << 13, 4, 6 >>, << 8, 12, 3 >>, << 1, 1, 1 >>, << 5, 5, 5 >>, << 11, 7, 2 >>, << 3, 3, 9 >>, << 9, 13, 13 >> }
ShapeNo(N) == LongAxis(N)
Listed(N) == { << (c \div 10000) % 100, (c \div 100) % 100, c % 100 >> : c \in { c \in List : c \div 1000000 = ShapeNo(N) } }
KindTriples(N) == CASE Family = "sweep" -> Sweep(N) [] Family = "mixed" -> Mixed(N) [] Family = "list" -> Listed(N)
                    [] OTHER -> [ 1..3 -> Kinds ]
FamShapes == Shapes
HasComplexPhase(c) == c.cplx
NoPhase(c) == c.real

Keys == { << N, kk, x >> : N \in FamShapes, kk \in UNION { KindTriples(N) : N \in FamShapes }, x \in Extra }
ValidKeys == { k \in Keys : k[2] \in KindTriples(k[1]) }
CfgOf(k) == LET x == k[3] IN MkCfg(k[1], k[2], << x \div 1000, (x \div 100) % 10, (x \div 10) % 10, x % 10 >>)

\* ------------------------------------------------------------ initial field states
Zero(n) == [ i \in 1..n |-> GZ ]
\* unit state number k in 1..2n: E component k, or H component k - n ; v = the Gaussian-integer value
UnitE(n, k, v) == [ i \in 1..n |-> IF i = k THEN v ELSE GZ ]
UnitH(n, k, v) == [ i \in 1..n |-> IF i + n = k THEN v ELSE GZ ]
Run(E, H, amp) == [ E |-> E, H |-> H, Hp |-> H, dE |-> 1, dH |-> 1, dHp |-> 1, amp |-> amp ]
FAdd(F, G) == [ i \in 1..Len(F) |-> GAdd(F[i], G[i]) ]
\* index k of a unit state is admissible iff the wall conditions allow the component to be non-zero
Admissible(c, k) == IF k <= c.n THEN ~c.zE[k] ELSE ~c.zH[k - c.n]

AmpA == << 2, 1 >>
AmpB == << -1, 3 >>
NoAmp == << 0, 0 >>
Coefs == { -1, 2, 3 }

Init ==
    /\ \E k \in ValidKeys : g = CfgOf(k)
    /\ (Mode = "complex" => NoPhase(g))
    /\ LET n == g.n IN
       CASE Mode = "energy" ->
              \* e_i + u e_j for i <= j (u = 1, and u = i where a Bloch phase makes the form Hermitian)
              /\ \E i \in 1..(2 * n) : \E j \in i..(2 * n) : \E u \in { << 1, 0 >>, << 0, 1 >> } :
                    /\ i % PairMod = 0 /\ Admissible(g, i) /\ Admissible(g, j)
                    /\ (u = << 0, 1 >> => (i < j /\ HasComplexPhase(g)))
                    /\ r = << Run(FAdd(UnitE(n, i, << 1, 0 >>), IF j = i THEN Zero(n) ELSE UnitE(n, j, u)),
                                  FAdd(UnitH(n, i, << 1, 0 >>), IF j = i THEN Zero(n) ELSE UnitH(n, j, u)), NoAmp) >>
              /\ t = 0 /\ pc = "prime" /\ ab = << 0, 0 >>
         [] Mode = "reverse" ->
              \* affine map: the zero state and every admissible unit state decide it
              /\ \E i \in 0..(2 * n) :
                    /\ (i > 0 => Admissible(g, i))
                    /\ r = << Run(UnitE(n, i, << 1, 0 >>), UnitH(n, i, << 1, 0 >>), << 1, 2 >>) >>
              /\ t \in 0..(Steps - 1) /\ pc = "E" /\ ab = << 0, 0 >>
         [] Mode = "linear" ->
              /\ \E i \in 1..(2 * n) : \E al \in Coefs : \E be \in Coefs :
                    LET j == (i % (2 * n)) + 1
                        x == Run(UnitE(n, i, << 1, 0 >>), UnitH(n, i, << 1, 0 >>), AmpA)
                        y == Run(UnitE(n, j, << 1, 0 >>), UnitH(n, j, << 1, 0 >>), AmpB)
                    IN  /\ ab = << al, be >>
                        /\ r = << x, y, Run(LinComb(al, x.E, be, y.E), LinComb(al, x.H, be, y.H),
                                            [ k \in 1..2 |-> al * AmpA[k] + be * AmpB[k] ]) >>
              /\ t = 0 /\ pc = "E"
         [] OTHER ->   \* "complex": run 1 real storage, run 2 complex storage, same real data
              /\ \E i \in 1..(2 * n) :
                    LET x == Run(UnitE(n, i, << 1, 0 >>), UnitH(n, i, << 1, 0 >>), << 1, 2 >>) IN r = << x, x >>
              /\ t = 0 /\ pc = "E" /\ ab = << 0, 0 >>
    /\ prev = << >>
    /\ s0 = IF Mode = "reverse" THEN r[1] ELSE << >>

\* real storage (run 1 of complex mode) cannot hold an imaginary part
ReProj(F) == [ i \in 1..Len(F) |-> << F[i][1], 0 >> ]
Store(k, s) == IF Mode = "complex" /\ k = 1 THEN [ s EXCEPT !.E = ReProj(s.E), !.H = ReProj(s.H) ] ELSE s
\* wrong variant of complex storage: the injection also writes a quadrature (imaginary) part
Quad(k, u) == IF Mode = "complex" /\ k = 2 /\ Variant = "cplx_quad" /\ Len(g.src) > 0
              THEN [ u EXCEPT !.E = [ i \in 1..Len(u.E) |-> << u.E[i][1], u.E[i][2] + Inj(g, "E", u.amp, i, t, FALSE) >> ] ]
              ELSE u
Each(f(_, _)) == [ k \in 1..Len(r) |-> f(k, r[k]) ]

PrimeHp ==
    /\ pc = "prime"
    /\ r' = << Prime(g, r[1]) >>
    /\ pc' = "E"
    /\ UNCHANGED << g, t, prev, s0, ab >>
UpdateE ==
    /\ pc = "E" /\ t < Steps
    /\ LET f(k, s) == Store(k, Quad(k, UpdE(g, s, t))) IN r' = Each(f)
    /\ pc' = "wallE"
    /\ prev' = IF Mode = "energy" THEN r[1] ELSE prev      \* the state at the step boundary, with its Hp
    /\ UNCHANGED << g, t, s0, ab >>
WallEStep ==
    /\ pc = "wallE"
    /\ LET f(k, s) == ApplyWallE(g, s) IN r' = Each(f)
    /\ pc' = "H"
    /\ UNCHANGED << g, t, prev, s0, ab >>
UpdateH ==
    /\ pc = "H"
    /\ LET f(k, s) == Store(k, UpdH(g, s, t)) IN r' = Each(f)
    /\ pc' = "wallH"
    /\ UNCHANGED << g, t, prev, s0, ab >>
WallHStep ==
    /\ pc = "wallH"
    /\ LET f(k, s) == ApplyWallH(g, s) IN r' = Each(f)
    /\ t' = t + 1
    /\ pc' = IF Mode = "reverse" THEN "revH" ELSE IF t + 1 < Steps THEN "E" ELSE "done"
    /\ UNCHANGED << g, prev, s0, ab >>
\* backward() works on time_step - 1
RevH ==
    /\ pc = "revH"
    /\ LET f(k, s) == RevHU(g, s, t - 1) IN r' = Each(f)
    /\ pc' = "revHw"
    /\ UNCHANGED << g, t, prev, s0, ab >>
RevHWall ==
    /\ pc = "revHw"
    /\ LET f(k, s) == ApplyWallH(g, s) IN r' = Each(f)
    /\ pc' = "revE"
    /\ UNCHANGED << g, t, prev, s0, ab >>
RevE ==
    /\ pc = "revE"
    /\ LET f(k, s) == RevEU(g, s, t - 1) IN r' = Each(f)
    /\ pc' = "revEw"
    /\ UNCHANGED << g, t, prev, s0, ab >>
RevEWall ==
    /\ pc = "revEw"
    /\ LET f(k, s) == ApplyWallE(g, s) IN r' = Each(f)
    /\ t' = t - 1
    /\ pc' = "done"
    /\ UNCHANGED << g, prev, s0, ab >>

Next == PrimeHp \/ UpdateE \/ WallEStep \/ UpdateH \/ WallHStep \/ RevH \/ RevHWall \/ RevE \/ RevEWall
Spec == Init /\ [][Next]_vars

\* ------------------------------------------------------------ properties
AtBoundary == pc \in {"E", "done"}
TypeOK == /\ pc \in {"prime", "E", "wallE", "H", "wallH", "revH", "revHw", "revE", "revEw", "done"}
          /\ t \in 0..Steps /\ Len(r) \in 1..3
\* walls hold at every step boundary
WallsHold == (AtBoundary /\ t >= 1) => \A k \in 1..Len(r) : WallOK(g, r[k])

\* C01: the discrete energy of the state at a step boundary equals that of the previous boundary minus the
\* manifestly non-negative dissipated amount; in particular it never increases
EnergyBalance  == (Mode = "energy" /\ AtBoundary /\ t >= 1) => EnergyBalanced(g, prev, r[1])
NeverIncreases == (Mode = "energy" /\ AtBoundary /\ t >= 1) => EnergyNotIncreased(g, prev, r[1])
\* C02: backward(forward(s)) = s for every state that satisfies the wall conditions
ReverseExact == (Mode = "reverse" /\ pc = "done") => SameEH(r[1], s0)
\* C10: the third run is the same linear combination of the first two at every sub-step
Linear == Mode = "linear" =>
             /\ r[3].dE = r[1].dE /\ r[3].dH = r[1].dH /\ r[2].dE = r[1].dE /\ r[2].dH = r[1].dH
             /\ r[3].E = LinComb(ab[1], r[1].E, ab[2], r[2].E)
             /\ r[3].H = LinComb(ab[1], r[1].H, ab[2], r[2].H)
\* C11: without a Bloch phase the complex-storage run keeps a zero imaginary part and its real part is the real run
RealStaysReal == Mode = "complex" =>
             /\ IsReal(r[2].E) /\ IsReal(r[2].H)
             /\ r[2].E = r[1].E /\ r[2].H = r[1].H /\ r[2].dE = r[1].dE /\ r[2].dH = r[1].dH
=============================================================================
