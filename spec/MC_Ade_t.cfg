SPECIFICATION Spec
CONSTANTS Variant = "ok"  MaxT = 4  Drives <- DrivesT  InvEps <- IeQ  CellKinds <- KindsT  Losses <- LossT
INVARIANT TypeOK
INVARIANT History
INVARIANT Recurrence
INVARIANT PrevIsOld
INVARIANT Ampere
INVARIANT ZeroPoles
CHECK_DEADLOCK FALSE
