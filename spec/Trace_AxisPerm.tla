------------------------- MODULE Trace_AxisPerm -------------------------
(* C08 conformance: TLC evaluates the relabelling relation of AxisPermDefs on arrays observed from REAL runs of
   one scene built in its three cyclic orientations (place_objects/apply_params, stepped with forward()).
   A record carries `pairs`: each pair is an array `a` of shape (3, N) from orientation r (final E, final H, or the
   E / H block of a raw FieldDetector record at one time step; `N` = its spatial shape) and the corresponding
   array `b` from orientation r+1.  Relation (AxisPermDefs!PermRel up to tolerance):
        b[PermIdx(i, N)] = a[i]      for every entry i
   Scalar records (Poynting flux through the relabelled plane, one number per time step) are sent as pairs with
   kind = "scalar" and compared entry by entry.  Values are 3-limb integers (RelNum), scaled by the harness to
   10^12 / max|value| of the two arrays; tol is in those units (10 = 1e-11 relative).                      *)
EXTENDS Integers, Sequences, FiniteSets, TLC, TLCExt, Json, IOUtils

P == INSTANCE AxisPermDefs
R == INSTANCE RelNum

Cases == JsonDeserialize(IOEnv.TRACE_FILE)
VARIABLES ci

Shaped(pr) == IF pr.kind = "scalar" THEN Len(pr.a) = Len(pr.b)
              ELSE Len(pr.a) = P!Size(pr.N) /\ Len(pr.b) = P!Size(pr.N)
PairOK(pr, tol) ==
    IF pr.kind = "scalar" THEN \A i \in 1..Len(pr.a) : R!NearL3(pr.b[i], pr.a[i], 1, tol)
    ELSE LET N == pr.N IN \A i \in 1..P!Size(N) : R!NearL3(pr.b[P!PermIdx(i, N)], pr.a[i], 1, tol)
NonTrivial(pr) == \E i \in 1..Len(pr.a) : ~R!ZeroL3(pr.a[i])

Verdict(c) ==
    IF \E k \in 1..Len(c.pairs) : ~Shaped(c.pairs[k]) THEN "malformed: array sizes do not match the declared shape"
    ELSE IF ~\E k \in 1..Len(c.pairs) : NonTrivial(c.pairs[k]) THEN "malformed: all observed arrays are zero"
    ELSE LET bad == { k \in 1..Len(c.pairs) : ~PairOK(c.pairs[k], c.tol) }
         IN  IF bad = {} THEN "ok"
             ELSE LET k == CHOOSE k \in bad : \A k2 \in bad : k <= k2
                  IN  "perm: " \o c.pairs[k].kind \o " of the relabelled scene is not the relabelled " \o c.pairs[k].kind

TInit == ci = 1 /\ TLCSet(1, << >>)
TNext == /\ ci <= Len(Cases)
         /\ LET c == Cases[ci] IN TLCSet(1, Append(TLCGet(1), [ id |-> c.id, v |-> Verdict(c) ]))
         /\ ci' = ci + 1
TSpec == TInit /\ [][TNext]_ci
Post == ndJsonSerialize(IOEnv.VERDICT_FILE, TLCGet(1))
=======================================================================
