--------------------------- MODULE HeapDefs ---------------------------
(* Pure definitions over object graphs ("heaps") with node identities, shared by Heap.tla (state machine of
   the functional setter TreeClass.aset, fdtdx/core/jax/pytrees.py) and Trace_Heap.tla (validation of
   snapshots of REAL Python objects taken before/after aset).

   A heap h is a sequence (function 1..N) of node records; the node id is the index.
       [ kind : "obj" | "list" | "dict" | "tuple" | "leaf" | "free",   -- "free": id not (yet) in use
         tag  : type tag (Python type name),
         val  : leaf value (0 for containers),
         kids : sequence of << label, child id >> ]
   A label is the uniform triple << ltype, name, idx >>:
       attribute  .a     == <<"attr","a",0>>      (aset path syntax  a      )
       list index [i]    == <<"idx","",i>>        (aset path syntax  [i]    ; i < 0 counts from the end)
       dict key   ['k']  == <<"key","k",0>>       (aset path syntax  ['k']  )
   A path is a sequence of labels (aset joins the steps with "->").                                     *)
EXTENDS Integers, Sequences, FiniteSets, TLC

Attr(n) == << "attr", n, 0 >>
Idx(i)  == << "idx", "", i >>
Key(k)  == << "key", k, 0 >>

Node(kind, tag, val, kids) == [ kind |-> kind, tag |-> tag, val |-> val, kids |-> kids ]
Free == Node("free", "", 0, << >>)

\* which label type may address a child of which node kind
StepKind(kind) == CASE kind = "obj" -> "attr" [] kind = "list" -> "idx" [] kind = "dict" -> "key" [] OTHER -> "none"

\* Python semantics of a negative list index
Canon(nd, lab) == IF lab[1] = "idx" /\ lab[3] < 0 THEN Idx(Len(nd.kids) + lab[3]) ELSE lab

\* position of the child addressed by (canonical) label lab among nd.kids; 0 = absent
Pos(nd, lab) == LET S == { j \in 1..Len(nd.kids) : nd.kids[j][1] = lab }
                IN  IF S = {} THEN 0 ELSE CHOOSE j \in S : TRUE
HasStep(nd, lab) == lab[1] = StepKind(nd.kind) /\ Pos(nd, Canon(nd, lab)) > 0
ChildOf(h, n, lab) == h[n].kids[Pos(h[n], Canon(h[n], lab))][2]
KidIds(nd) == { nd.kids[j][2] : j \in 1..Len(nd.kids) }

\* ---------- paths ----------
RECURSIVE ValidPath(_, _, _)
ValidPath(h, n, path) ==
    IF path = << >> THEN TRUE
    ELSE HasStep(h[n], Head(path)) /\ ValidPath(h, ChildOf(h, n, Head(path)), Tail(path))

\* like ValidPath, but the LAST step may address a dict key / attribute that does not exist yet (create_new_ok)
RECURSIVE ValidPathNew(_, _, _)
ValidPathNew(h, n, path) ==
    IF path = << >> THEN FALSE
    ELSE IF Len(path) = 1
         THEN Head(path)[1] = StepKind(h[n].kind) /\ (HasStep(h[n], Head(path)) \/ Head(path)[1] \in {"attr", "key"})
         ELSE HasStep(h[n], Head(path)) /\ ValidPathNew(h, ChildOf(h, n, Head(path)), Tail(path))

\* the raw path with every negative index resolved against the graph it is walked in
RECURSIVE CanonPath(_, _, _)
CanonPath(h, n, path) ==
    IF path = << >> THEN << >>
    ELSE IF ~HasStep(h[n], Head(path)) THEN path     \* create-new last step: already canonical
    ELSE << Canon(h[n], Head(path)) >> \o CanonPath(h, ChildOf(h, n, Head(path)), Tail(path))

\* ids of the nodes visited by walking path from n: << n, child, grandchild, ... >>  (the "spine")
RECURSIVE Spine(_, _, _)
Spine(h, n, path) ==
    IF path = << >> \/ ~HasStep(h[n], Head(path)) THEN << n >>
    ELSE << n >> \o Spine(h, ChildOf(h, n, Head(path)), Tail(path))

NodeAt(h, n, path) == LET sp == Spine(h, n, path) IN sp[Len(sp)]      \* the node a valid path leads to

\* all non-empty valid canonical paths below n (to leaves AND to inner nodes: aset may replace a whole subtree)
RECURSIVE PathsFrom(_, _)
PathsFrom(h, n) ==
    UNION { { << h[n].kids[j][1] >> } \cup { << h[n].kids[j][1] >> \o p : p \in PathsFrom(h, h[n].kids[j][2]) }
            : j \in { i \in 1..Len(h[n].kids) : StepKind(h[n].kind) # "none" } }

\* the same path written with Python negative indices at every list step
RECURSIVE NegPath(_, _, _)
NegPath(h, n, path) ==
    IF path = << >> THEN << >>
    ELSE LET lab == Head(path)
             raw == IF lab[1] = "idx" THEN Idx(lab[3] - Len(h[n].kids)) ELSE lab
         IN  << raw >> \o NegPath(h, ChildOf(h, n, lab), Tail(path))

\* ---------- reachability (identities) ----------
RECURSIVE ReachFrom(_, _, _)
ReachFrom(h, frontier, seen) ==
    IF frontier = {} THEN seen
    ELSE LET s2 == seen \cup frontier
         IN  ReachFrom(h, (UNION { KidIds(h[n]) : n \in frontier }) \ s2, s2)
Reach(h, r) == ReachFrom(h, {r}, {})

\* ---------- structural value (identities forgotten): the unfolding of the graph below n ----------
\* kids become a SET of << label, value >>, so dictionary/attribute order is irrelevant (list order is in the label)
RECURSIVE Val(_, _)
Val(h, n) == [ kind |-> h[n].kind, tag |-> h[n].tag, val |-> h[n].val,
               kids |-> { << h[n].kids[j][1], Val(h, h[n].kids[j][2]) >> : j \in 1..Len(h[n].kids) } ]

\* the substitution t[path := nv] on structural values: THE right-hand side of "only the addressed path changed"
RECURSIVE Subst(_, _, _)
Subst(t, path, nv) ==
    IF path = << >> THEN nv
    ELSE LET hit == { p \in t.kids : p[1] = Head(path) }
         IN  IF hit = {}
             THEN [ t EXCEPT !.kids = t.kids \cup { << Head(path), nv >> } ]      \* create-new (only ever the last step)
             ELSE [ t EXCEPT !.kids = { IF p[1] = Head(path) THEN << p[1], Subst(p[2], Tail(path), nv) >> ELSE p
                                        : p \in t.kids } ]

\* ---------- the three clauses of the property, on a before-heap h0 and an after-heap h1 ----------
\* (1) the original object is unchanged: every node reachable from it before still has the same id and contents
OrigUnchanged(h0, h1, old) == \A n \in Reach(h0, old) : h1[n] = h0[n]
\* (2) only the addressed path changed: the result is the substitution, and nothing else
OnlyPathChanged(h0, h1, old, new, path, v) ==
    Val(h1, new) = Subst(Val(h0, old), CanonPath(h0, old, path), Val(h0, v))
\* (3) same type: the result, and every copied node on the way down to the addressed slot, keeps kind and tag
SameType(h0, h1, old, new, path) ==
    LET so == Spine(h0, old, path)
        sn == Spine(h1, new, CanonPath(h0, old, path))
        \* the nodes that had to be copied: the holders of the slots on the path, not the addressed slot itself
        m  == IF Len(so) < Len(path) THEN Len(so) ELSE Len(path)
    IN  /\ Len(sn) >= m
        /\ \A k \in 1..m : h1[sn[k]].tag = h0[so[k]].tag /\ h1[sn[k]].kind = h0[so[k]].kind

\* well-formedness of a heap snapshot: children are allocated nodes, leaves have no kids, acyclic below r
WellFormed(h, r) ==
    /\ r \in 1..Len(h)
    /\ \A n \in 1..Len(h) : \A c \in KidIds(h[n]) : c \in 1..Len(h) /\ c > 0
Allocated(h, S) == \A n \in S : h[n].kind # "free"
=======================================================================
