-------------------------- MODULE OverlapDefs --------------------------
(* Pure definitions for C29: integer boxes, the 13 Allen interval relations, the cell-sharing
   predicate, candidate "needs re-apply" rules, and the post-device material model (permittivity AND a
   dispersion/conductivity class per cell) that a material sampling object must have seen.  Shared by Overlap.tla and Trace_Overlap.tla.

   An interval is a pair <<s, e>> of cell-edge indices, s < e, covering the cells s .. e-1
   (exactly fdtdx's _grid_slice_tuple[axis]).  A box is a 3-sequence of intervals.                 *)
EXTENDS Integers, Sequences, FiniteSets, TLC

Intervals(n) == { iv \in (0..(n-1)) \X (1..n) : iv[1] < iv[2] }
IsInterval(iv, n) == /\ Len(iv) = 2 /\ 0 <= iv[1] /\ iv[1] < iv[2] /\ iv[2] <= n
IsBox(b, n) == Len(b) = 3 /\ \A a \in 1..3 : IsInterval(b[a], n)

\* ---------- Allen's 13 relations of interval o relative to interval d ----------
Allen(o, d) ==
    IF o[2] < d[1] THEN "before"
    ELSE IF o[2] = d[1] THEN "meets"
    ELSE IF o[1] > d[2] THEN "after"
    ELSE IF o[1] = d[2] THEN "met_by"
    ELSE IF o[1] = d[1] /\ o[2] = d[2] THEN "equals"
    ELSE IF o[1] = d[1] THEN (IF o[2] < d[2] THEN "starts" ELSE "started_by")
    ELSE IF o[2] = d[2] THEN (IF o[1] > d[1] THEN "finishes" ELSE "finished_by")
    ELSE IF o[1] > d[1] /\ o[2] < d[2] THEN "during"
    ELSE IF o[1] < d[1] /\ o[2] > d[2] THEN "contains"
    ELSE IF o[1] < d[1] THEN "overlaps"
    ELSE "overlapped_by"
AllenNames == { "before", "meets", "overlaps", "starts", "during", "finishes", "equals",
                "finished_by", "contains", "started_by", "overlapped_by", "met_by", "after" }
\* the nine relations in which the two intervals have a cell in common
SharingNames == AllenNames \ { "before", "meets", "met_by", "after" }
Rel3(O, D) == << Allen(O[1], D[1]), Allen(O[2], D[2]), Allen(O[3], D[3]) >>

\* ---------- sharing a cell ----------
CellsOf(iv) == iv[1] .. (iv[2] - 1)
ShareAxis(o, d) == o[1] < d[2] /\ d[1] < o[2]
Intersects(O, D) == \A a \in 1..3 : ShareAxis(O[a], D[a])
BoxCells(B) == CellsOf(B[1]) \X CellsOf(B[2]) \X CellsOf(B[3])
InBox(c, B) == \A a \in 1..3 : B[a][1] <= c[a] /\ c[a] < B[a][2]

\* ---------- candidate rules deciding which objects are set up again after the device parameters ----------
\*  "share_cell"        the design rule: all three axes have a cell in common              (exact)
\*  "closed_all_axes"   all three axes touch or overlap (edges included)                    (proposed fix; superset)
\*  "closed_any_axis"   some axis touches or overlaps                                       (superset)
\*  "endpoint_any_axis" on some axis a device END POINT lies in the object's closed interval
\*                      (object.py check_overlap before the fix: misses an object strictly inside
\*                       the device on every axis)
ClosedAxis(o, d) == o[1] <= d[2] /\ d[1] <= o[2]
EndpointAxis(o, d) == (o[1] <= d[1] /\ d[1] <= o[2]) \/ (o[1] <= d[2] /\ d[2] <= o[2])
Flag(rule, D, O) ==
    CASE rule = "share_cell"        -> \A a \in 1..3 : ShareAxis(O[a], D[a])
      [] rule = "closed_all_axes"   -> \A a \in 1..3 : ClosedAxis(O[a], D[a])
      [] rule = "closed_any_axis"   -> \E a \in 1..3 : ClosedAxis(O[a], D[a])
      [] rule = "endpoint_any_axis" -> \E a \in 1..3 : EndpointAxis(O[a], D[a])
NeedsReapply(O, Ds) == \E i \in 1..Len(Ds) : Intersects(O, Ds[i])

\* ---------- one canonical interval per Allen relation, relative to the device interval <<2,5>> on 0..7 ----------
RepDev == <<2, 5>>
Rep(r) == CASE r = "before" -> <<0, 1>>  [] r = "meets" -> <<0, 2>>       [] r = "overlaps" -> <<1, 3>>
            [] r = "starts" -> <<2, 3>>  [] r = "during" -> <<3, 4>>      [] r = "finishes" -> <<4, 5>>
            [] r = "equals" -> <<2, 5>>  [] r = "finished_by" -> <<1, 5>> [] r = "contains" -> <<1, 6>>
            [] r = "started_by" -> <<2, 6>> [] r = "overlapped_by" -> <<4, 6>>
            [] r = "met_by" -> <<5, 7>>  [] r = "after" -> <<6, 7>>
RepsOK == \A r \in AllenNames : Allen(Rep(r), RepDev) = r

\* ---------- material model used by the conformance scenes ----------
\* Every cell carries TWO attributes that an object's set-up samples:
\*   eps : 4/eps_inf as an exact integer  (array inv_permittivities)
\*   aux : dispersion / conductivity class, 0 = none, 1 = the device's lossy/dispersive material
\*         (arrays dispersive_c1..c4, electric_conductivity)
\* Background: eps = 1 (value 4), aux 0.  A device cell gets a material by the parity of its
\* device-local index XOR the parameter pattern pat (0 or 1): even -> eps 2 (value 2), aux 0;
\* odd -> eps 4 (value 1), aux 1.  The arrays are the result of a HISTORY of writes << device, pat >>
\* (one per device per apply_params call); the last write covering a cell wins.
Bg == 4
BgAux == 0
Parity(c, D, pat) == ((c[1] - D[1][1]) + (c[2] - D[2][1]) + (c[3] - D[3][1]) + pat) % 2
DevVal(c, D, pat) == IF Parity(c, D, pat) = 0 THEN 2 ELSE 1
DevAux(c, D, pat) == IF Parity(c, D, pat) = 0 THEN 0 ELSE 1
RECURSIVE EpsAt(_, _, _, _), AuxAt(_, _, _, _)
\* value of cell c after the first k writes of history w (w[j] = << device index, pattern >>)
EpsAt(c, Ds, w, k) == IF k = 0 THEN Bg ELSE IF InBox(c, Ds[w[k][1]]) THEN DevVal(c, Ds[w[k][1]], w[k][2]) ELSE EpsAt(c, Ds, w, k - 1)
AuxAt(c, Ds, w, k) == IF k = 0 THEN BgAux ELSE IF InBox(c, Ds[w[k][1]]) THEN DevAux(c, Ds[w[k][1]], w[k][2]) ELSE AuxAt(c, Ds, w, k - 1)
\* history of one complete apply_params call with pattern pat, and of r calls with alternating patterns 0,1,0,..
CallWrites(Ds, pat) == [ d \in 1..Len(Ds) |-> << d, pat >> ]
RECURSIVE Calls(_, _)
Calls(Ds, r) == IF r = 0 THEN << >> ELSE Calls(Ds, r - 1) \o CallWrites(Ds, (r - 1) % 2)
\* what a material-sampling object with box O holds after a set-up against the arrays of history w[1..k],
\* flattened in C order (x slowest), as a 1-based sequence
BoxLen(O) == (O[1][2] - O[1][1]) * (O[2][2] - O[2][1]) * (O[3][2] - O[3][1])
CellAt(O, i) ==
    LET ny == O[2][2] - O[2][1]  nz == O[3][2] - O[3][1]  j == i - 1
    IN  << O[1][1] + (j \div (ny * nz)), O[2][1] + ((j \div nz) % ny), O[3][1] + (j % nz) >>
SnapEps(O, Ds, w, k) == [ i \in 1..BoxLen(O) |-> EpsAt(CellAt(O, i), Ds, w, k) ]
SnapAux(O, Ds, w, k) == [ i \in 1..BoxLen(O) |-> AuxAt(CellAt(O, i), Ds, w, k) ]
\* expected eps snapshot after the r-th apply_params call of a scene (used by the trace spec)
ExpectedSnap(O, Ds, r) == LET w == Calls(Ds, r) IN SnapEps(O, Ds, w, Len(w))
========================================================================
