SPECIFICATION Spec
CONSTANTS
  ShapeSet <- ShapesT
  KernelSet <- KernelsT
  CfgSet <- Cfgs
  Variant = "spec"
INVARIANT TypeOK
INVARIANT PadAgrees
INVARIANT MajorityOK
CHECK_DEADLOCK FALSE
