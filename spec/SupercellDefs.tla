--------------------------- MODULE SupercellDefs ---------------------------
(* Pure definitions of the periodic / Bloch lattice update of fdtdx and of the supercell (tile) relation.
   Shared by Supercell.tla (product state machine) and Trace_Supercell.tla (relation evaluated on arrays
   observed from the real solver).

   Code modelled (all under /repo/src/fdtdx):
     core/misc.py          pad_fields: jnp.pad(mode="wrap") axis by axis  -> ghost cell -1 reads cell n-1,
                                                                              ghost cell n reads cell 0
     objects/boundaries/bloch.py  apply_pad_correction: min-side ghost (padded index 0) *= conj(phase),
                                  max-side ghost (padded index -1) *= phase,  phase = exp(i k L), L = n cells
     core/physics/curl.py  curl_H: backward differences, curl_E: forward differences, cyclic components
     fdtd/update.py        update_E: E += c*inv_eps*curl_H(H);  update_H: H -= c*inv_mu*curl_E(E)

   Arithmetic is exact: field values are Gaussian integers <<re, im>>, phases are Gaussian units, the
   coefficient c*inv_eps is a positive integer per component and cell (the relation is a polynomial identity in
   the coefficients, so integer coefficients decide it).                                                   *)
EXTENDS Integers, Sequences, FiniteSets, TLC

\* ---------- Gaussian integers ----------
Units == { <<1, 0>>, <<0, 1>>, <<-1, 0>>, <<0, -1>> }
One  == <<1, 0>>
GAdd(a, b) == << a[1] + b[1], a[2] + b[2] >>
GSub(a, b) == << a[1] - b[1], a[2] - b[2] >>
GMul(a, b) == << a[1] * b[1] - a[2] * b[2], a[1] * b[2] + a[2] * b[1] >>
GConj(a)   == << a[1], -a[2] >>
GScale(k, a) == << k * a[1], k * a[2] >>
RECURSIVE GPow(_, _)
GPow(a, n) == IF n = 0 THEN One ELSE GMul(a, GPow(a, n - 1))
RECURSIVE IPow(_, _)
IPow(a, n) == IF n = 0 THEN 1 ELSE a * IPow(a, n - 1)

\* ---------- lattice ----------
\* N = <<nx, ny, nz>> cells.  A field is a sequence of Size(N) Gaussian integers in the memory order of the
\* implementation's (3, nx, ny, nz) arrays (C order):  index = Lin(p, x, y, z, N),  p = component 0..2
Cells(N)  == N[1] * N[2] * N[3]
Size(N)   == 3 * Cells(N)
Lin(p, x, y, z, N) == ((p * N[1] + x) * N[2] + y) * N[3] + z + 1
Stride(N, a) == IF a = 1 THEN N[2] * N[3] ELSE IF a = 2 THEN N[3] ELSE 1
Coord(i, N, a) == ((i - 1) \div Stride(N, a)) % N[a]          \* a in 1..3
Comp(i, N)  == (i - 1) \div Cells(N)
At(i, p, N) == i + (p - Comp(i, N)) * Cells(N)                  \* component p at the cell of index i
Mul3(N, M) == << N[1] * M[1], N[2] * M[2], N[3] * M[3] >>

\* Variant selects the padding / phase convention:
\*   "ok"           the documented one (and the code's)
\*   "swap_ghost"   phase on the wrong ghost cell: min ghost *= phase, max ghost *= conj(phase)
\*   "no_conj"      conj dropped: both ghosts *= phase
\*   "wrap_swapped" wrap order swapped: min ghost reads cell 0, max ghost reads cell n-1
\*   "L_short"      handled by the caller (phase computed from n-1 cells)
GhostFac(q, n, ph, variant) ==
    IF q = -1 THEN (IF variant \in {"swap_ghost", "no_conj"} THEN ph ELSE GConj(ph))
    ELSE IF q = n THEN (IF variant = "swap_ghost" THEN GConj(ph) ELSE ph)
    ELSE One

\* padded read: the entry one cell (d = +1 / -1) away from index i along axis a.  Inside the lattice that is
\* i + d*stride; the ghost cell -1 wraps to cell n-1 and the ghost cell n to cell 0 (jnp.pad "wrap"), times the
\* ghost phase.  Only axis a can leave the lattice (the curl never reads corner ghosts).
RdAx(F, i, a, d, N, PH, variant) ==
    LET q == Coord(i, N, a) + d
    IN  IF q >= 0 /\ q < N[a] THEN F[i + d * Stride(N, a)]
        ELSE GMul(GhostFac(q, N[a], PH[a], variant),
                  F[IF variant = "wrap_swapped" THEN i ELSE i - d * (N[a] - 1) * Stride(N, a)])

\* forward / backward difference along axis a of the entry with index i
DFwd(F, i, a, N, PH, v) == GSub(RdAx(F, i, a, 1, N, PH, v), F[i])
DBwd(F, i, a, N, PH, v) == GSub(F[i], RdAx(F, i, a, -1, N, PH, v))
\* curl_p = d_{p+1} F_{p+2} - d_{p+2} F_{p+1}   (cyclic; axis number = component + 1), at the cell of index i
CurlBwd(F, i, N, PH, v) ==
    LET p == Comp(i, N)
    IN  GSub(DBwd(F, At(i, (p + 2) % 3, N), ((p + 1) % 3) + 1, N, PH, v),
             DBwd(F, At(i, (p + 1) % 3, N), ((p + 2) % 3) + 1, N, PH, v))
CurlFwd(F, i, N, PH, v) ==
    LET p == Comp(i, N)
    IN  GSub(DFwd(F, At(i, (p + 2) % 3, N), ((p + 1) % 3) + 1, N, PH, v),
             DFwd(F, At(i, (p + 1) % 3, N), ((p + 2) % 3) + 1, N, PH, v))

\* update_E / update_H of one lattice (mat = integer coefficient c*inv_eps per component and cell; c*inv_mu = 1)
StepE(E, H, mat, N, PH, v) == [ i \in 1..Size(N) |-> GAdd(E[i], GScale(mat[i], CurlBwd(H, i, N, PH, v))) ]
StepH(E, H, N, PH, v)      == [ i \in 1..Size(N) |-> GSub(H[i], CurlFwd(E, i, N, PH, v)) ]

\* ---------- the supercell relation ----------
\* index in the N-cell lattice of which big-lattice index I (lattice N*M) is a copy, and the copy number per axis
SrcIdx(I, N, M) == LET NB == Mul3(N, M)
                   IN  Lin(Comp(I, NB), Coord(I, NB, 1) % N[1], Coord(I, NB, 2) % N[2], Coord(I, NB, 3) % N[3], N)
\* the same for an array with `nc` leading components instead of 3 (material arrays: nc = 1 or 3)
SrcIdx1(I, N, M, nc) ==
    LET NB == Mul3(N, M)
        p  == (I - 1) \div Cells(NB)
    IN  Lin(p, Coord(I, NB, 1) % N[1], Coord(I, NB, 2) % N[2], Coord(I, NB, 3) % N[3], N)
CopyNo(I, N, M, a) == Coord(I, Mul3(N, M), a) \div N[a]
\* copy j = <<jx, jy, jz>> of the N-cell field carries the phase prod_a PHI[a]^j[a]
TilePhase(j, PHI) == GMul(GPow(PHI[1], j[1]), GMul(GPow(PHI[2], j[2]), GPow(PHI[3], j[3])))
TileOf(F, N, M, PHI) ==
    [ I \in 1..Size(Mul3(N, M)) |->
        GMul(TilePhase(<< CopyNo(I, N, M, 1), CopyNo(I, N, M, 2), CopyNo(I, N, M, 3) >>, PHI), F[SrcIdx(I, N, M)]) ]
MatTile(mat, N, M) == [ I \in 1..Size(Mul3(N, M)) |-> mat[SrcIdx(I, N, M)] ]
TileRel(FB, FS, N, M, PHI) == FB = TileOf(FS, N, M, PHI)
\* phase applied at the boundary of the m*N-cell domain
BigPhase(PHI, M) == << GPow(PHI[1], M[1]), GPow(PHI[2], M[2]), GPow(PHI[3], M[3]) >>
=============================================================================
