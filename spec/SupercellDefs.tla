--------------------------- MODULE SupercellDefs ---------------------------
(* Pure definitions of the periodic / Bloch lattice update of fdtdx and of the supercell (tile) relation.
   Shared by Supercell.tla (product state machine) and Trace_Supercell.tla (relation evaluated on arrays
   observed from the real solver).

   Code modelled (all under /repo/src/fdtdx):
     core/misc.py          pad_fields: jnp.pad(mode="wrap") axis by axis  -> ghost cell -1 reads cell n-1,
                                                                              ghost cell n reads cell 0
     objects/boundaries/bloch.py  apply_pad_correction: min-side ghost (padded index 0) *= conj(phase),
                                  max-side ghost (padded index -1) *= phase,  phase = exp(i k L), L = n cells
     core/physics/curl.py  curl_H: backward differences, curl_E: forward differences, cyclic components
     fdtd/update.py        update_E: E += c*inv_eps*curl_H(H);  update_H: H -= c*inv_mu*curl_E(E)

   Arithmetic is exact: field values are Gaussian integers <<re, im>>, phases are Gaussian units, the
   coefficient c*inv_eps is a positive integer per component and cell (the relation is a polynomial identity in
   the coefficients, so integer coefficients decide it).                                                   *)
EXTENDS Integers, Sequences, FiniteSets, TLC

\* ---------- Gaussian integers ----------
Units == { <<1, 0>>, <<0, 1>>, <<-1, 0>>, <<0, -1>> }
One  == <<1, 0>>
GAdd(a, b) == << a[1] + b[1], a[2] + b[2] >>
GSub(a, b) == << a[1] - b[1], a[2] - b[2] >>
GMul(a, b) == << a[1] * b[1] - a[2] * b[2], a[1] * b[2] + a[2] * b[1] >>
GConj(a)   == << a[1], -a[2] >>
GScale(k, a) == << k * a[1], k * a[2] >>
RECURSIVE GPow(_, _)
GPow(a, n) == IF n = 0 THEN One ELSE GMul(a, GPow(a, n - 1))
RECURSIVE IPow(_, _)
IPow(a, n) == IF n = 0 THEN 1 ELSE a * IPow(a, n - 1)

\* ---------- lattice ----------
\* N = <<nx, ny, nz>> cells; a field is a function on Idx(N) = components 0..2 x cells
Idx(N) == { <<p, x, y, z>> : p \in 0..2, x \in 0..(N[1]-1), y \in 0..(N[2]-1), z \in 0..(N[3]-1) }
Mul3(N, M) == << N[1] * M[1], N[2] * M[2], N[3] * M[3] >>

\* Variant selects the padding / phase convention:
\*   "ok"           the documented one (and the code's)
\*   "swap_ghost"   phase on the wrong ghost cell: min ghost *= phase, max ghost *= conj(phase)
\*   "no_conj"      conj dropped: both ghosts *= phase
\*   "wrap_swapped" wrap order swapped: min ghost reads cell 0, max ghost reads cell n-1
\*   "L_short"      handled by the caller (phase computed from n-1 cells)
WrapC(q, n, variant) ==
    IF q = -1 THEN (IF variant = "wrap_swapped" THEN 0 ELSE n - 1)
    ELSE IF q = n THEN (IF variant = "wrap_swapped" THEN n - 1 ELSE 0)
    ELSE q
GhostFac(q, n, ph, variant) ==
    IF q = -1 THEN (IF variant \in {"swap_ghost", "no_conj"} THEN ph ELSE GConj(ph))
    ELSE IF q = n THEN (IF variant = "swap_ghost" THEN GConj(ph) ELSE ph)
    ELSE One

\* padded read: c = <<x, y, z>> may lie one cell outside the lattice on any axis
Rd(F, p, c, N, PH, variant) ==
    LET fac == GMul(GhostFac(c[1], N[1], PH[1], variant),
               GMul(GhostFac(c[2], N[2], PH[2], variant), GhostFac(c[3], N[3], PH[3], variant)))
    IN  GMul(fac, F[<< p, WrapC(c[1], N[1], variant), WrapC(c[2], N[2], variant), WrapC(c[3], N[3], variant) >>])

Shift(c, a, d) == [ c EXCEPT ![a] = @ + d ]
\* forward / backward difference of component p along axis a (1..3) at cell c
DFwd(F, p, c, a, N, PH, v) == GSub(Rd(F, p, Shift(c, a, 1), N, PH, v), F[<< p, c[1], c[2], c[3] >>])
DBwd(F, p, c, a, N, PH, v) == GSub(F[<< p, c[1], c[2], c[3] >>], Rd(F, p, Shift(c, a, -1), N, PH, v))
\* curl_p = d_{p+1} F_{p+2} - d_{p+2} F_{p+1}   (cyclic; axis numbers are component + 1)
CurlBwd(F, p, c, N, PH, v) == GSub(DBwd(F, (p + 2) % 3, c, ((p + 1) % 3) + 1, N, PH, v),
                                   DBwd(F, (p + 1) % 3, c, ((p + 2) % 3) + 1, N, PH, v))
CurlFwd(F, p, c, N, PH, v) == GSub(DFwd(F, (p + 2) % 3, c, ((p + 1) % 3) + 1, N, PH, v),
                                   DFwd(F, (p + 1) % 3, c, ((p + 2) % 3) + 1, N, PH, v))

\* update_E / update_H of one lattice (mat = integer coefficient c*inv_eps per component and cell; c*inv_mu = 1)
StepE(E, H, mat, N, PH, v) ==
    [ i \in Idx(N) |-> GAdd(E[i], GScale(mat[i], CurlBwd(H, i[1], << i[2], i[3], i[4] >>, N, PH, v))) ]
StepH(E, H, N, PH, v) ==
    [ i \in Idx(N) |-> GSub(H[i], CurlFwd(E, i[1], << i[2], i[3], i[4] >>, N, PH, v)) ]

\* ---------- the supercell relation ----------
\* copy j = <<jx, jy, jz>> of the N-cell field carries the phase prod_a PHI[a]^j[a]
TilePhase(j, PHI) == GMul(GPow(PHI[1], j[1]), GMul(GPow(PHI[2], j[2]), GPow(PHI[3], j[3])))
TileOf(F, N, M, PHI) ==
    [ i \in Idx(Mul3(N, M)) |->
        GMul(TilePhase(<< i[2] \div N[1], i[3] \div N[2], i[4] \div N[3] >>, PHI),
             F[<< i[1], i[2] % N[1], i[3] % N[2], i[4] % N[3] >>]) ]
MatTile(mat, N, M) ==
    [ i \in Idx(Mul3(N, M)) |-> mat[<< i[1], i[2] % N[1], i[3] % N[2], i[4] % N[3] >>] ]
TileRel(FB, FS, N, M, PHI) == FB = TileOf(FS, N, M, PHI)
\* phase applied at the boundary of the m*N-cell domain
BigPhase(PHI, M) == << GPow(PHI[1], M[1]), GPow(PHI[2], M[2]), GPow(PHI[3], M[3]) >>
=============================================================================
