SPECIFICATION Spec
CONSTANTS Mode = "reverse"  Variant = "rev_noadj"  Family = "list"  List = { 1090312 }  Steps = 3  PairMod = 7
          Extra = { 1002 }
INVARIANT TypeOK
INVARIANT ReverseExact
CHECK_DEADLOCK FALSE
