SPECIFICATION Spec
CONSTANTS LossPerHit = 2  ChargeFree = TRUE  OpenFace = "none"  Transits = 4  StretchApplied = TRUE
INVARIANT TypeOK
INVARIANT QuietAbsorbed

PROPERTY PhaseMonotone
PROPERTY NoGrowth
CHECK_DEADLOCK FALSE
