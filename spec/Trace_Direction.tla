--------------------------- MODULE Trace_Direction ---------------------------
(* C13 conformance (trace-monitor).  One record = one REAL fdtdx run with a plane source between two library
   PoyntingFluxDetector planes (same transverse extent as the source, a quarter wavelength in front of / behind it):
     axis, dir, pol, profile, res, beam, switch   the configuration (must be one of DirectionDefs!Configs)
     delaySteps, onToEnd                     first step at which the placed source is on; it stays on until the last step
     cpwMilli, radiusMilli                   cells per wavelength * 1000, Gaussian radius in 1e-3 wavelengths (0: uniform)
     normal, periodic, homogeneous           azimuth = elevation = 0 / transverse faces periodic / vacuum everywhere
     tSteady, T                              first step of the Steady phase, number of steps
     events [{t0, t1, fwdPos, pf, ratio}]    observation windows [t0, t1):
         cw    - consecutive whole periods, P = time average of the flux over the window
         pulse - [0, t1): P = flux integrated from the start
       fwdPos = P_fwd > 0, pf = P_fwd in ppb of the last window's P_fwd (capped), ratio = floor(1e9 |P_back| / P_fwd)
   "forward" is the declared direction of the source: P_fwd is the flux through the plane in front of it counted in
   the declared direction, P_back the flux through the plane behind it counted in the opposite direction.
   TLC walks the windows through the phase machine Ramp -> Steady and evaluates the statement's inequality.   *)
EXTENDS Integers, Sequences, FiniteSets, TLC, TLCExt, Json, IOUtils
D == INSTANCE DirectionDefs
Cases == JsonDeserialize(IOEnv.TRACE_FILE)
VARIABLE ci

N(c) == Len(c.events)
Phase(c, ev) == D!PhaseAt(ev.t0, c.tSteady)
Shape(c) ==
    /\ [axis |-> c.axis, dir |-> c.dir, pol |-> c.pol, profile |-> c.profile, res |-> c.res, beam |-> c.beam, switch |-> c.switch] \in D!Configs
    /\ c.onToEnd /\ c.delaySteps >= 0 /\ (c.switch = "on" <=> c.delaySteps = 0)
    /\ c.cpwMilli = c.res * 1000
    /\ N(c) >= 1 /\ \A i \in 1..N(c) : 0 <= c.events[i].t0 /\ c.events[i].t0 < c.events[i].t1 /\ c.events[i].t1 <= c.T
                                       /\ c.events[i].ratio >= 0 /\ c.events[i].pf >= 0
    /\ \A i \in 1..(N(c) - 1) : c.events[i].t1 <= c.events[i + 1].t1
    /\ (c.profile = "cw" => \A i \in 1..(N(c) - 1) : c.events[i].t1 = c.events[i + 1].t0)
    /\ (c.profile = "pulse" => \A i \in 1..N(c) : c.events[i].t0 = 0)
\* Steady must not be declared before the source has settled: cw - linear ramp over (rampSteps) plus the way to the
\* planes and back (settleSteps); pulse - the pulse is over (rampSteps = 12 sigma) plus the way to the planes
\* a switched source runs on its own clock: ramp / pulse start at delaySteps
Timing(c) == c.tSteady >= c.delaySteps + c.rampSteps + c.settleSteps /\ c.rampSteps > 0 /\ c.settleSteps > 0
SteadySet(c) == { i \in 1..N(c) : IF c.profile = "cw" THEN Phase(c, c.events[i]) = "Steady" ELSE c.events[i].t1 >= c.tSteady }
PhaseOf(c, i) == IF i \in SteadySet(c) THEN "Steady" ELSE "Ramp"
Verdict(c) ==
    IF ~Shape(c) THEN "malformed: configuration / window list"
    ELSE IF ~Timing(c) THEN "malformed: Steady declared too early"
    ELSE IF ~D!Precond(c.beam, c.cpwMilli, c.radiusMilli, c.normal, c.periodic, c.homogeneous) THEN "ok"   \* outside the premise
    ELSE IF Cardinality(SteadySet(c)) < (IF c.profile = "cw" THEN 3 ELSE 1) THEN "malformed: too few Steady windows"
    ELSE IF \E i \in SteadySet(c) : ~c.events[i].fwdPos
         THEN "direction: no power crosses the plane in front of the source in the declared direction"
    ELSE IF \E i \in 1..N(c) : ~D!DirectionalOK(PhaseOf(c, i), c.beam, c.events[i].fwdPos, c.events[i].ratio)
         THEN (IF c.beam = "uniform" THEN "direction: backward power is not below 1e-3 of the forward power"
                                     ELSE "direction: backward power of the Gaussian beam is not below 0.1 of the forward power")
    ELSE "ok"
TInit == ci = 1 /\ TLCSet(1, << >>)
TNext == /\ ci <= Len(Cases)
         /\ LET c == Cases[ci] IN TLCSet(1, Append(TLCGet(1), [ id |-> c.id, v |-> Verdict(c) ]))
         /\ ci' = ci + 1
TSpec == TInit /\ [][TNext]_ci
Post == ndJsonSerialize(IOEnv.VERDICT_FILE, TLCGet(1))
=============================================================================
