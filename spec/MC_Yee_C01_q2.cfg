SPECIFICATION Spec
CONSTANTS Mode = "energy"  Variant = "ok"  Family = "list"  List = { 1050107 }  Steps = 1  PairMod = 2
          Extra = { 1100, 1010 }
INVARIANT TypeOK
INVARIANT WallsHold
INVARIANT EnergyBalance
INVARIANT NeverIncreases
CHECK_DEADLOCK FALSE
