SPECIFICATION Spec
CONSTANTS
  Dims <- DimsQ
  Brushes = { "d1", "d2", "d3" }
  Levels <- NegPos
  Variant = "paper"
  DesignSet <- AllLevels
INVARIANT TypeOK
INVARIANT NoConflict
INVARIANT Progress
INVARIANT StepsBounded
INVARIANT PostCondition
INVARIANT RunLoopAgrees
PROPERTY Grows
CHECK_DEADLOCK TRUE
