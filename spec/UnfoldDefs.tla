-------------------------- MODULE UnfoldDefs --------------------------
(* Pure definitions of mirror-symmetry unfolding (fdtdx/fdtd/symmetry.py, fdtdx/core/physics/symmetry.py),
   shared by Unfold.tla (state machine, model-checked) and Trace_Unfold.tla (conformance).

   Conventions of the code: per axis  0 = no symmetry, -1 = electric (PEC) plane, +1 = magnetic (PMC)
   plane; the UPPER half is kept; unfolding prepends the mirror image ("low block") of the kept half,
   so an axis of n kept samples becomes 2n samples and kept sample k is full sample n + k.

   Everything is stated in exact integer arithmetic.  Positions are measured in HALF cells.           *)
EXTENDS Integers, Sequences, FiniteSets

Axes == 0..2
Walls == {-1, 1}
FieldComps == <<"Ex", "Ey", "Ez", "Hx", "Hy", "Hz">>        \* canonical stacking order of the detectors
FieldCompSet == {"Ex", "Ey", "Ez", "Hx", "Hy", "Hz"}
FluxComps == <<"Sx", "Sy", "Sz">>

FT(comp) == IF comp \in {"Ex", "Ey", "Ez"} THEN "E" ELSE IF comp \in {"Hx", "Hy", "Hz"} THEN "H"
            ELSE IF comp \in {"Sx", "Sy", "Sz"} THEN "S" ELSE "W"
CA(comp) == IF comp \in {"Ex", "Hx", "Sx"} THEN 0 ELSE IF comp \in {"Ey", "Hy", "Sy"} THEN 1
            ELSE IF comp \in {"Ez", "Hz", "Sz"} THEN 2 ELSE -1

\* ---------------------------------------------------------------- parity (physics, declarative)
\* Reflection about a plane normal to axis a acts on a polar vector (E, S) by flipping its normal
\* component and on an axial vector (H) by flipping its tangential components.
ReflSign(ft, c, a) == IF ft = "H" THEN (IF c = a THEN 1 ELSE -1) ELSE (IF c = a THEN -1 ELSE 1)
\* A magnetic plane (+1) leaves the field invariant under the reflection, an electric plane (-1)
\* maps it to its negative; quantities quadratic in the field (S = E x H, energy W) do not see the wall.
Parity(ft, c, a, wall) == wall * ReflSign(ft, c, a)
\* the code derives the flux parity as the product of the parities of the two transverse components
\* E_j, H_k (j < k the two axes other than i); PoyntingIsPolar (Unfold.tla) proves both agree.
PoyntingParity(i, a, wall) ==
    LET j == CHOOSE x \in Axes : x # i /\ \A y \in Axes : y # i => x <= y
        k == CHOOSE x \in Axes : x # i /\ x # j
    IN  Parity("E", j, a, wall) * Parity("H", k, a, wall)

CompParity(comp, a, wall) ==
    IF FT(comp) \in {"E", "H"} THEN Parity(FT(comp), CA(comp), a, wall)
    ELSE IF FT(comp) = "S" THEN PoyntingParity(CA(comp), a, wall)
    ELSE 1                                                   \* energy density is even

\* ---------------------------------------------------------------- where samples sit (Yee lattice)
\* offset (0 or 1 half cells) of the samples of a Yee component along axis a
YeeOffset(ft, c, a) == IF ft = "E" THEN (IF c = a THEN 1 ELSE 0) ELSE (IF c = a THEN 0 ELSE 1)
\* detectors with exact_interpolation store every component at the E_z node (i, j, k + 1/2)
ColocOffset(a) == IF a = 2 THEN 1 ELSE 0

\* Documented index-map rule: an electric plane lies ON the reduced min edge (position 0), so a sample
\* with offset 0 is its own mirror and pairs are m +- j; a magnetic plane is documented to mirror every
\* sample one-to-one (plain flip).  Raw (not co-located) detector records always use the plain flip.
\*   kind = "field" : unfold_fields, Yee-staggered components
\*   kind = "det"   : detector records (co-located iff exact)
OnPlane(kind, comp, a, wall, exact) ==
    IF wall # -1 THEN FALSE
    ELSE IF kind = "field" THEN YeeOffset(FT(comp), CA(comp), a) = 0
    ELSE exact /\ ColocOffset(a) = 0

\* ---------------------------------------------------------------- one axis
\* Position (half cells, relative to the mirror plane of an electric wall) of full sample i of 2n:
Pos(n, off, i) == 2 * (i - n) + off
\* Mirror partner of full index i (0..2n-1).  on-plane: positions p and -p  => i' = 2n - i ;
\* plain flip: i' = 2n - 1 - i.
MirrorIdx(n, on, i) == IF on THEN 2 * n - i ELSE 2 * n - 1 - i
HasPartner(n, on, i) == MirrorIdx(n, on, i) \in 0..(2 * n - 1) /\ MirrorIdx(n, on, i) # i

\* Source of full sample i: <<kept index, sign>>.  Upper half: itself.  Lower half: its mirror partner in
\* the kept half times the parity.  The outermost on-plane sample (i = 0) has its partner (kept index n) one
\* past the kept half: it takes the parity-mirrored OUTERMOST KEPT sample n-1 instead.  For n >= 2 that is
\* the documented "repeats its neighbour" (full sample 1 has the same source); for n = 1 the only kept
\* sample is the plane sample itself.
Src(n, on, par, i) ==
    IF i >= n THEN << i - n, 1 >>
    ELSE IF on /\ i = 0 THEN << n - 1, par >>
    ELSE << MirrorIdx(n, on, i) - n, par >>

\* Implementation-shaped construction of the low block from the kept samples x (function 0..n-1 -> Int),
\* as mirror_extend_low_side builds it.  Variant selects deliberately wrong constructions (negative instances).
LowBlock(x, n, par, on, variant) ==
    IF ~on \/ variant = "plain_flip_on_plane" THEN [ j \in 0..(n - 1) |-> par * x[n - 1 - j] ]
    ELSE IF n = 1 THEN [ j \in 0..0 |-> par * x[0] ]                \* only the plane sample exists: mirrored like the outermost one
    ELSE LET m == [ j \in 0..(n - 2) |-> par * x[n - 1 - j] ]       \* parity * flip(x[1:])
         IN  [ j \in 0..(n - 1) |-> IF j = 0 THEN m[0] ELSE m[j - 1] ]

\* ---------------------------------------------------------------- reductions
\* Factor relating a half-domain linear reduction to the full-domain one: prod (1 + parity) over the
\* touched axes for a sum; the same divided by 2^count for a mean.  Returned as <<num, den>>.
RECURSIVE ProdOnePlus(_, _, _)
ProdOnePlus(comp, touched, a) ==
    IF a > 2 THEN 1
    ELSE (IF touched[a + 1] = 0 THEN 1 ELSE 1 + CompParity(comp, a, touched[a + 1])) * ProdOnePlus(comp, touched, a + 1)
Count(touched) == Cardinality({ a \in Axes : touched[a + 1] # 0 })
Pow2(k) == IF k = 0 THEN 1 ELSE IF k = 1 THEN 2 ELSE IF k = 2 THEN 4 ELSE 8
ReduceFactor(comp, touched, mean) == << ProdOnePlus(comp, touched, 0), IF mean THEN Pow2(Count(touched)) ELSE 1 >>

\* stored component order of a Field/Phasor detector = canonical order restricted to the chosen set
Stored(S) == SelectSeq(FieldComps, LAMBDA c : c \in S)
=======================================================================
