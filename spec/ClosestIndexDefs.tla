------------------------- MODULE ClosestIndexDefs -------------------------
(* Pure definitions for fdtdx.ClosestIndex (objects/device/parameters/discretization.py), shared by
   ClosestIndex.tla (one-step machine) and Trace_ClosestIndex.tla.

   All real numbers are integers in units of 1/D (D = "den" of a case): inputs, allowed values and
   their distances are therefore compared exactly.
   Allowed values, in material-index order (0-based index i <-> sequence element i+1):
     index mode   : 0, 1, ..., n-1                          (units: 0, D, ..., (n-1)D)
     inverse mode : 1/eps of the materials, ordered by ascending permittivity (fdtdx material order),
                    i.e. descending inverse permittivity.                                          *)
EXTENDS ParamArrays

\* ---------- allowed values ----------
IndexAllowed(n, D) == [ i \in 1..n |-> (i - 1) * D ]

\* invs: inverse permittivities (units 1/D) in arbitrary (dictionary) order, pairwise distinct
InvAllowed(invs) ==
    LET R == SeqRange(invs)
    IN  [ i \in 1..Len(invs) |-> CHOOSE v \in R : Cardinality({ w \in R : w > v }) = i - 1 ]

\* eps = <<num, den>> ; 1/eps in units of 1/D is D*den/num (must divide exactly, else the case is malformed)
InvExact(eps, D) == (D * eps[2]) % eps[1] = 0
InvOf(eps, D)    == (D * eps[2]) \div eps[1]

\* ---------- the property's right-hand side ----------
\* 0-based indices of all allowed values that are nearest to x (ties: every minimiser is acceptable)
NearestSet(x, A) == { i - 1 : i \in { i \in 1..Len(A) : \A j \in 1..Len(A) : Abs(x - A[i]) <= Abs(x - A[j]) } }

\* ---------- implementation-shaped rules (more detailed than the property: they fix the tie rule) ----------
\* jnp.round = round half to even, on x in units of 1/D; result in units of 1
RoundHalfEven(x, D) ==
    LET f == x \div D   r == x % D          \* floor and non-negative remainder
    IN  IF 2 * r < D THEN f ELSE IF 2 * r > D THEN f + 1 ELSE IF f % 2 = 0 THEN f ELSE f + 1
Clip(v, lo, hi) == IF v < lo THEN lo ELSE IF v > hi THEN hi ELSE v
ImplIndexMode(x, n, D) == Clip(RoundHalfEven(x, D), 0, n - 1)
\* jnp.argmin = first minimiser
ImplInvMode(x, A) == MinOf(NearestSet(x, A))

\* ---------- straight-through estimator as dual numbers <<value, derivative>> ----------
\* ste(x, y) = x - stop_gradient(x) + stop_gradient(y)
Dual(v, d)   == << v, d >>
Stop(a)      == << a[1], 0 >>
DSub(a, b)   == << a[1] - b[1], a[2] - b[2] >>
DAdd(a, b)   == << a[1] + b[1], a[2] + b[2] >>
STE(x, y)    == DAdd(DSub(x, Stop(x)), Stop(y))

\* ---------- the broadcasting defect of the inverse mode (negative instance; see notes/C19.md) ----------
\* dist = |arr[..., None] - allowed| with allowed of shape (n, 1): arr's LAST axis is broadcast against the
\* material axis and argmin runs over the trailing singleton component axis => index 0 everywhere and
\* output shape = shape with the last axis replaced by n (only defined when that axis is 1 or n).
BuggyDefined(shape, n)  == Len(shape) >= 1 /\ shape[Len(shape)] \in {1, n}
BuggyOutShape(shape, n) == [ k \in 1..Len(shape) |-> IF k = Len(shape) THEN n ELSE shape[k] ]
==========================================================================
