SPECIFICATION Spec
CONSTANTS
  KindSet <- AllKinds
  ShapeSet <- ShapesQ
  Full3 = 4
  Full2 = 9
  Variant = "spec"
INVARIANT TypeOK
INVARIANT Invariance
INVARIANT IdentityOnSym
INVARIANT Idempotent
INVARIANT MeanKept
CHECK_DEADLOCK FALSE
