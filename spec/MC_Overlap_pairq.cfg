SPECIFICATION Spec
CONSTANTS N = 7  Rule = "closed_all_axes"  Scene = "pairq"
INVARIANT TypeOK
INVARIANT StateIsFresh
INVARIANT AllValid
INVARIANT AppliedOnce
PROPERTY NoApplyDuringParams
CHECK_DEADLOCK FALSE
