SPECIFICATION TSpec
CONSTANTS MaxT = 0  RevLoop = "gt"
POSTCONDITION Post
CHECK_DEADLOCK FALSE
