SPECIFICATION Spec
CONSTANTS Mode = "linear"  Variant = "ok"  Family = "sweep"  List = { }  Steps = 3  PairMod = 1
          Extra = { 1002, 1103, 1011 }
INVARIANT TypeOK
INVARIANT Linear
CHECK_DEADLOCK FALSE
