-------------------------- MODULE Trace_Grid --------------------------
(* Conformance of the REAL grid helpers (fdtdx.RectilinearGrid, SimulationConfig.time_step_duration from
   /repo/src) with GridDefs.tla.  One case = one grid (three edge arrays, integers in quarter units of a
   dyadic real unit, so every float64 result of the code is exact) plus the list of queries the harness
   made on it with the answers the code gave.  Queries are batched (one event = one helper with a list of
   arguments) to keep the number of TLC states small.

   For every event the verdict is the PROPERTY predicate of GridDefs evaluated on the observed answer
   ("...: ..." clause = violation of C37).  Where the code's answer satisfies the property but differs
   from the detailed model (first minimiser, out-of-range searchsorted values) the clause starts with
   "drift:".  "malformed:" = the harness produced a bad record.                                          *)
EXTENDS Integers, Sequences, FiniteSets, TLC, TLCExt, Json, IOUtils

D == INSTANCE GridDefs

Cases == JsonDeserialize(IOEnv.TRACE_FILE)
VARIABLES ci
Raised == -99

Ax(c, a) == c.e[a + 1]
Ix(s) == 1..Len(s)

SnapV(c, ev) ==
    LET e == Ax(c, ev.a) IN
    IF Len(ev.cs) # Len(ev.out) THEN "malformed: snap lengths"
    ELSE IF ev.mode = "nearest" /\ \E i \in Ix(ev.cs) : ~D!IsNearest(e, ev.cs[i], ev.out[i])
         THEN "snap nearest: returned index is not an edge of minimal distance"
    ELSE IF ev.mode = "lower" /\ \E i \in Ix(ev.cs) : D!HasLower(e, ev.cs[i]) /\ ~D!IsLower(e, ev.cs[i], ev.out[i])
         THEN "snap lower: returned index is not the largest edge <= coord"
    ELSE IF ev.mode = "upper" /\ \E i \in Ix(ev.cs) : D!HasUpper(e, ev.cs[i]) /\ ~D!IsUpper(e, ev.cs[i], ev.out[i])
         THEN "snap upper: returned index is not the smallest edge >= coord"
    ELSE IF ev.mode \notin {"nearest", "lower", "upper"} THEN "malformed: snap mode"
    ELSE IF \E i \in Ix(ev.cs) : ev.out[i] # (IF ev.mode = "nearest" THEN D!NearestAlg(e, ev.cs[i])
                                               ELSE IF ev.mode = "lower" THEN D!LowerAlg(e, ev.cs[i]) ELSE D!UpperAlg(e, ev.cs[i]))
         THEN "drift: snap differs from the argmin / searchsorted model"
    ELSE "ok"

CentreV(c, ev) ==
    LET e == Ax(c, ev.a) IN
    IF Len(ev.cs) # Len(ev.lo) \/ Len(ev.cs) # Len(ev.hi) THEN "malformed: centre lengths"
    ELSE IF \E i \in Ix(ev.cs) : (ev.lo[i] = Raised) # (~D!Fits(e, ev.size))
         THEN "centre: refused although an interval fits, or answered although none fits"
    ELSE IF \E i \in Ix(ev.cs) : ev.lo[i] # Raised /\ ~D!IsCentreChoice(e, ev.size, ev.cs[i], ev.lo[i], ev.hi[i])
         THEN "centre: interval is not size preserving inside the grid with minimal centre distance"
    ELSE IF \E i \in Ix(ev.cs) : ev.lo[i] # Raised /\ \E l2 \in 0..(ev.lo[i] - 1) : D!CentreDist2(e, l2, ev.size, ev.cs[i]) <= D!CentreDist2(e, ev.lo[i], ev.size, ev.cs[i])
         THEN "drift: centre choice is a minimiser but not the first one"
    ELSE "ok"

AnchorV(c, ev) ==
    LET e == Ax(c, ev.a) IN
    IF Len(ev.cs) # Len(ev.lo) \/ Len(ev.cs) # Len(ev.hi) \/ ev.k \notin 0..4 THEN "malformed: anchor lengths"
    ELSE IF \E i \in Ix(ev.cs) : (ev.lo[i] = Raised) # (~D!Fits(e, ev.size))
         THEN "anchor: refused although an interval fits, or answered although none fits"
    ELSE IF \E i \in Ix(ev.cs) : ev.lo[i] # Raised /\ ~D!IsAnchorChoice(e, ev.size, ev.k, ev.cs[i], ev.lo[i], ev.hi[i])
         THEN "anchor: interval is not size preserving inside the grid with minimal anchor distance"
    ELSE IF \E i \in Ix(ev.cs) : ev.lo[i] # Raised /\ \E l2 \in 0..(ev.lo[i] - 1) : D!AnchorDist(e, l2, ev.size, ev.k, ev.cs[i]) <= D!AnchorDist(e, ev.lo[i], ev.size, ev.k, ev.cs[i])
         THEN "drift: anchor choice is a minimiser but not the first one"
    ELSE "ok"

AnchorCoordV(c, ev) ==
    LET e == Ax(c, ev.a) IN
    IF Len(ev.ls) # Len(ev.out) \/ Len(ev.us) # Len(ev.out) THEN "malformed: anchor_coord lengths"
    ELSE IF ev.dev # 0 THEN "anchor_coord: value not exact"
    ELSE IF \E i \in Ix(ev.out) : ev.out[i] # D!AnchorQ(e, ev.ls[i], ev.us[i], ev.k)
         THEN "anchor_coord: not lower + (position+1)/2 * (upper - lower)"
    ELSE "ok"

ExtentV(c, ev) ==
    LET e == Ax(c, ev.a) IN
    IF Len(ev.ls) # Len(ev.out) \/ Len(ev.us) # Len(ev.out) THEN "malformed: extent lengths"
    ELSE IF ev.dev # 0 THEN "extent: value not exact"
    ELSE IF \E i \in Ix(ev.out) : ev.out[i] # D!ExtentQ(e, ev.ls[i], ev.us[i]) THEN "extent: not edges[upper] - edges[lower]"
    ELSE "ok"

SliceExtentV(c, ev) ==
    IF ~D!SliceOK(c.e, ev.sl) \/ Len(ev.out) # 3 THEN "malformed: slice_extent"
    ELSE IF ev.dev # 0 THEN "slice_extent: value not exact"
    ELSE IF \E a \in 1..3 : ev.out[a] # D!ExtentQ(c.e[a], ev.sl[a][1], ev.sl[a][2]) THEN "slice_extent: not the per-axis edge differences"
    ELSE "ok"

AxisArraysV(c, ev) ==
    LET e == Ax(c, ev.a) IN
    IF ev.dev # 0 THEN "widths/centres: value not exact"
    ELSE IF ev.widths # D!WidthsQ(e) THEN "widths: not the differences of consecutive edges"
    ELSE IF Len(ev.centres2) # D!NCells(e) \/ \E i \in Ix(ev.centres2) : ev.centres2[i] # D!Centre2(e, i - 1)
         THEN "centres: not the midpoints of consecutive edges"
    ELSE IF ev.edges # e THEN "edges: not the edge array the grid was built from"
    ELSE "ok"

ShapeV(c, ev) ==
    IF \E a \in 1..3 : ev.shape[a] # D!NCells(c.e[a]) THEN "shape: not the number of cells per axis"
    ELSE IF ev.dev # 0 THEN "min_spacings: value not exact"
    ELSE IF \E a \in 1..3 : ev.mins[a] # 4 * D!MinW(c.e[a]) THEN "min_spacings: not the smallest cell width per axis"
    ELSE IF ev.minall # D!MinOf({ 4 * D!MinW(c.e[a]) : a \in 1..3 }) THEN "min_spacing: not the smallest cell width"
    ELSE "ok"

AreaV(c, ev) ==
    IF ~D!SliceOK(c.e, ev.sl) \/ ev.a \notin 0..2 THEN "malformed: area slice"
    ELSE IF ev.dev # 0 THEN "face_area: value not exact"
    ELSE IF ev.shape # D!FaceShape(ev.sl, ev.a) THEN "face_area: wrong array shape"
    ELSE IF ev.out # D!FaceAreaFlat(c.e, ev.a, ev.sl) THEN "face_area: not the product of the transverse cell widths"
    ELSE "ok"

VolumeV(c, ev) ==
    IF ~D!SliceOK(c.e, ev.sl) THEN "malformed: volume slice"
    ELSE IF ev.dev # 0 THEN "cell_volume: value not exact"
    ELSE IF ev.shape # D!VolShape(ev.sl) THEN "cell_volume: wrong array shape"
    ELSE IF ev.out # D!CellVolumeFlat(c.e, ev.sl) THEN "cell_volume: not dx*dy*dz of the cell"
    ELSE "ok"

\* ev.g = the realised grid the time step refers to (the case grid, or the grid implied by a policy grid)
CflV(c, ev) ==
    IF ~D!CflArithOK(ev.g, ev.xh, ev.xl, c.tolppt) THEN "malformed: cfl numbers out of range"
    ELSE IF ~D!CflHolds(ev.g, ev.xh, ev.xl, c.tolppt) THEN "cfl: time step exceeds courant_factor / (c * sqrt(sum 1/dmin^2))"
    ELSE "ok"

UniformV(c, ev) ==
    IF ev.out # D!IsUniformExact(c.e) THEN "uniform: detection wrong on an exactly uniform / clearly non-uniform grid"
    ELSE IF ev.out /\ ev.spacing # -1 /\ ev.spacing # D!WidthQ(c.e[1], 0) THEN "uniform: uniform_spacing is not the cell width"
    ELSE IF ~ev.out /\ ~ev.spacing_raised THEN "uniform: uniform_spacing did not refuse a non-uniform grid"
    ELSE "ok"

ReduceV(c, ev) ==
    IF ev.raised # D!ReduceRaises(c.e, ev.sym) THEN "reduce: refusal does not match (odd / <2 / asymmetric symmetric axis)"
    ELSE IF ~ev.raised /\ ev.dev # 0 THEN "reduce: edges not exact"
    ELSE IF ~ev.raised /\ ev.e # D!Reduced(c.e, ev.sym) THEN "reduce: not the upper-half edges with unchanged other axes"
    ELSE "ok"

\* float-valued grids (no exact integers): the harness reports relative numbers as integers
\* relvar_ppm = max |width - width_x[0]| / width_x[0] in 1e-6;  claim only outside the band around the documented 1e-4 threshold
UniformFV(c, ev) ==
    IF ev.relvar_ppm <= 10 /\ ~ev.out THEN "uniform: a grid with <= 1e-5 relative width variation is reported non-uniform"
    ELSE IF ev.relvar_ppm >= 1000 /\ ev.out THEN "uniform: a grid with >= 1e-3 relative width variation is reported uniform"
    ELSE "ok"
\* excess_ppt = (c*dt*sqrt(sum 1/dmin^2)/cf - 1) in 1e-12, clipped to +-10^9
CflFV(c, ev) ==
    IF ev.excess_ppt > c.tolppt THEN "cfl: time step exceeds courant_factor / (c * sqrt(sum 1/dmin^2))"
    ELSE "ok"

EvV(c, ev) ==
    CASE ev.op = "snap" -> SnapV(c, ev)
      [] ev.op = "centre" -> CentreV(c, ev)
      [] ev.op = "anchor" -> AnchorV(c, ev)
      [] ev.op = "anchor_coord" -> AnchorCoordV(c, ev)
      [] ev.op = "extent" -> ExtentV(c, ev)
      [] ev.op = "slice_extent" -> SliceExtentV(c, ev)
      [] ev.op = "axis_arrays" -> AxisArraysV(c, ev)
      [] ev.op = "shape" -> ShapeV(c, ev)
      [] ev.op = "area" -> AreaV(c, ev)
      [] ev.op = "volume" -> VolumeV(c, ev)
      [] ev.op = "cfl" -> CflV(c, ev)
      [] ev.op = "uniform" -> UniformV(c, ev)
      [] ev.op = "reduce" -> ReduceV(c, ev)
      [] ev.op = "uniformf" -> UniformFV(c, ev)
      [] ev.op = "cflf" -> CflFV(c, ev)
      [] OTHER -> "malformed: unknown op"

DriftMsgs == { "drift: snap differs from the argmin / searchsorted model",
               "drift: centre choice is a minimiser but not the first one",
               "drift: anchor choice is a minimiser but not the first one" }
IsDrift(v) == v \in DriftMsgs

GridWellFormed(c) ==
    c.kind = "float" \/ \A a \in 1..3 : Len(c.e[a]) >= 2 /\ D!StrictlyIncreasing(c.e[a]) /\ \A i \in 1..(Len(c.e[a]) - 1) : (c.e[a][i + 1] - c.e[a][i]) % 4 = 0

Verdict(c) ==
    IF ~GridWellFormed(c) THEN "malformed: grid edges"
    ELSE LET vs   == TLCEval([ i \in Ix(c.ev) |-> EvV(c, c.ev[i]) ])    \* evaluated once
             hard == { i \in Ix(c.ev) : vs[i] # "ok" /\ ~IsDrift(vs[i]) }
             soft == { i \in Ix(c.ev) : vs[i] # "ok" }
         IN IF hard # {} THEN vs[D!MinOf(hard)]
            ELSE IF soft # {} THEN vs[D!MinOf(soft)]
            ELSE "ok"

TInit == ci = 1 /\ TLCSet(1, << >>)
TNext == /\ ci <= Len(Cases)
         /\ TLCSet(1, Append(TLCGet(1), [ id |-> Cases[ci].id, v |-> Verdict(Cases[ci]) ]))
         /\ ci' = ci + 1
TSpec == TInit /\ [][TNext]_ci
Post == ndJsonSerialize(IOEnv.VERDICT_FILE, TLCGet(1))
=======================================================================
