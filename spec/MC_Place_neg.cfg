SPECIFICATION Spec
CONSTANTS CatFile = "Place_catalogue_neg.json"  MaxCons = 3  MaxSpec = 9  EarlyBreak = TRUE  SkipKnown = FALSE
INVARIANT Confluence
INVARIANT Soundness
INVARIANT PassItemsCommute
PROPERTY WriteOnce
PROPERTY FailSticky
CHECK_DEADLOCK FALSE
