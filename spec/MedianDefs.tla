---------------------------- MODULE MedianDefs ----------------------------
(* Pure definitions for fdtdx.binary_median_filter / BinaryMedianFilterModule
   (objects/device/parameters/binary_transform.py, discrete.py) and core/misc.py advanced_padding,
   shared by Median.tla and Trace_Median.tla.

   Arrays are rank-3 binary arrays (ParamArrays).  A padding configuration has one entry per EDGE
   (edge 2k-1 = low side of axis k, edge 2k = high side), each with a width, a mode
   ("constant" | "edge" | "reflect" | "symmetric") and, for "constant", a value.  A configuration with a
   single entry stands for six equal entries; an empty `values` stands for zeros.

   Two independent descriptions of "the array under the configured padding":
     PadVal   closed form: value seen at ANY extended position (coordinates < 1 or > size)
     PadAll   the implementation's way: pad edge after edge (jnp.pad on the already padded array)
   The property is stated with PadVal; Median.tla checks that filtering the PadAll array agrees.     *)
EXTENDS ParamArrays

Modes == { "constant", "edge", "reflect", "symmetric" }

Expand6(s, dflt) == IF Len(s) = 0 THEN [ e \in 1..6 |-> dflt ] ELSE IF Len(s) = 1 THEN [ e \in 1..6 |-> s[1] ] ELSE s
ExpandCfg(c) == [ widths |-> Expand6(c.widths, 0), modes |-> Expand6(c.modes, "constant"), values |-> Expand6(c.values, 0) ]

Half(ks, k) == (ks[k] - 1) \div 2
OddKernel(ks) == Len(ks) = 3 /\ \A k \in 1..3 : ks[k] >= 1 /\ ks[k] % 2 = 1
Volume(ks) == ks[1] * ks[2] * ks[3]

\* preconditions (cfg already expanded): the neighbourhood must lie inside the padded array, and mirrored
\* modes must be single reflections (width <= size-1 for "reflect", <= size for "symmetric")
Sufficient(cfg, ks) == \A k \in 1..3 : cfg.widths[2 * k - 1] >= Half(ks, k) /\ cfg.widths[2 * k] >= Half(ks, k)
ValidCfg(cfg, shape) ==
    /\ Len(cfg.widths) = 6 /\ Len(cfg.modes) = 6 /\ Len(cfg.values) = 6
    /\ \A e \in 1..6 : /\ cfg.widths[e] >= 0 /\ cfg.modes[e] \in Modes /\ cfg.values[e] \in {0, 1}
                       /\ cfg.modes[e] = "reflect"   => cfg.widths[e] <= shape[(e + 1) \div 2] - 1
                       /\ cfg.modes[e] = "symmetric" => cfg.widths[e] <= shape[(e + 1) \div 2]

\* ---------- closed form of the padded array ----------
\* axes are resolved from the last to the first: a later padded axis overrides (constant) or re-reads (other
\* modes) the earlier padded ones, exactly as padding axis after axis does
RECURSIVE PadValFrom(_, _, _, _, _)
PadValFrom(arr, shape, cfg, q, k) ==
    IF k = 0 THEN arr[q]
    ELSE IF q[k] >= 1 /\ q[k] <= shape[k] THEN PadValFrom(arr, shape, cfg, q, k - 1)
    ELSE LET lo == q[k] < 1
             e  == IF lo THEN 2 * k - 1 ELSE 2 * k
             m  == cfg.modes[e]
         IN  IF m = "constant" THEN cfg.values[e]
             ELSE LET qk == IF m = "edge" THEN (IF lo THEN 1 ELSE shape[k])
                            ELSE IF m = "reflect" THEN (IF lo THEN 2 - q[k] ELSE 2 * shape[k] - q[k])
                            ELSE (IF lo THEN 1 - q[k] ELSE 2 * shape[k] + 1 - q[k])        \* symmetric
                  IN  PadValFrom(arr, shape, cfg, [ q EXCEPT ![k] = qk ], k - 1)
PadVal(arr, shape, cfg, q) == PadValFrom(arr, shape, cfg, q, 3)

\* ---------- the property's right-hand side ----------
Box(p, ks) == { << a, b, c >> : a \in (p[1] - Half(ks, 1))..(p[1] + Half(ks, 1)),
                                b \in (p[2] - Half(ks, 2))..(p[2] + Half(ks, 2)),
                                c \in (p[3] - Half(ks, 3))..(p[3] + Half(ks, 3)) }
Ones(arr, shape, cfg, ks, p) == Cardinality({ q \in Box(p, ks) : PadVal(arr, shape, cfg, q) = 1 })
Majority(arr, shape, cfg, ks, p) == IF 2 * Ones(arr, shape, cfg, ks, p) > Volume(ks) THEN 1 ELSE 0
MedianOnce(arr, shape, cfg, ks) == [ p \in Positions(shape) |-> Majority(arr, shape, cfg, ks, p) ]
RECURSIVE MedianTimes(_, _, _, _, _)
\* (TLC note: "a \in {expr}" evaluates the intermediate array once instead of at every use of the argument)
MedianTimes(arr, shape, cfg, ks, r) ==
    IF r = 0 THEN arr
    ELSE CHOOSE res \in { MedianTimes(a, shape, cfg, ks, r - 1) : a \in { MedianOnce(arr, shape, cfg, ks) } } : TRUE

\* ---------- the implementation's way ----------
\* extended array: [lo, hi : coordinate ranges per axis, f : values]
ExtPositions(lo, hi) == { << a, b, c >> : a \in lo[1]..hi[1], b \in lo[2]..hi[2], c \in lo[3]..hi[3] }
ExtOf(arr, shape) == [ lo |-> << 1, 1, 1 >>, hi |-> shape, f |-> arr ]

PadEdge(E, cfg, e) ==
    LET k   == (e + 1) \div 2
        low == e % 2 = 1
        w   == cfg.widths[e]
        m   == cfg.modes[e]
        nlo == IF low THEN [ E.lo EXCEPT ![k] = @ - w ] ELSE E.lo
        nhi == IF low THEN E.hi ELSE [ E.hi EXCEPT ![k] = @ + w ]
        src(q) == IF m = "edge" THEN (IF low THEN E.lo[k] ELSE E.hi[k])
                  ELSE IF m = "reflect" THEN (IF low THEN 2 * E.lo[k] - q[k] ELSE 2 * E.hi[k] - q[k])
                  ELSE (IF low THEN 2 * E.lo[k] - 1 - q[k] ELSE 2 * E.hi[k] + 1 - q[k])
    IN  [ lo |-> nlo, hi |-> nhi,
          f  |-> [ q \in ExtPositions(nlo, nhi) |->
                     IF q[k] >= E.lo[k] /\ q[k] <= E.hi[k] THEN E.f[q]
                     ELSE IF m = "constant" THEN cfg.values[e]
                     ELSE E.f[[ q EXCEPT ![k] = src(q) ]] ] ]

RECURSIVE PadEdges(_, _, _)
PadEdges(E, cfg, e) == IF e > 6 THEN E ELSE PadEdges(PadEdge(E, cfg, e), cfg, e + 1)
PadAll(arr, shape, cfg) == PadEdges(ExtOf(arr, shape), cfg, 1)

\* box sum over the padded array (zero beyond it: convolution mode "same"), normalised and rounded;
\* `off` is where the original array is assumed to start inside the padded one (the code's orig_slice)
ExtGet(E, q) == IF \A k \in 1..3 : q[k] >= E.lo[k] /\ q[k] <= E.hi[k] THEN E.f[q] ELSE 0
BoxSum(E, ks, p) == Cardinality({ q \in Box(p, ks) : ExtGet(E, q) = 1 })
FilterExt(E, shape, ks, off) ==
    [ p \in Positions(shape) |->
        IF 2 * BoxSum(E, ks, [ k \in 1..3 |-> p[k] + off[k] ]) > Volume(ks) THEN 1 ELSE 0 ]
===========================================================================
