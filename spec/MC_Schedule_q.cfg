SPECIFICATION Spec
CONSTANTS MaxT = 6  RevLoop = "gt"
INVARIANT TypeOK
INVARIANT SlicePartition
INVARIANT ExecutedIsPrefix
INVARIANT FullRunExecutesAll
INVARIANT NoNegativeTime
INVARIANT VjpOnceDescending
INVARIANT VjpPrefixDescending
INVARIANT CheckpointsAtBoundaries
INVARIANT DriftBounded
CHECK_DEADLOCK FALSE
