SPECIFICATION Spec
CONSTANTS Size = "q"  Variant = "z_from_y"
INVARIANT TypeOK
INVARIANT MaskIsInclusion
INVARIANT RadiiByRule
INVARIANT BoundaryExcluded
INVARIANT SymmetricMask
INVARIANT Extruded
PROPERTY Monotone
PROPERTY MirrorEquivariant
CHECK_DEADLOCK FALSE
