--------------------------- MODULE Trace_Slices ---------------------------
(* C05, slice-partition clause: the boundaries returned by the REAL _reversible_slice_boundaries(T, k) are
   checked by TLC against the property (IsPartition) and against the model (Boundaries, round-half-even). *)
EXTENDS ScheduleDefs, Json, IOUtils, TLCExt
Cases == JsonDeserialize(IOEnv.TRACE_FILE)
VARIABLE ci
AsFun(seq) == [ i \in 0..(Len(seq) - 1) |-> seq[i + 1] ]
Verdict(c) ==
    LET b == AsFun(c.b) IN
    IF Len(c.b) # c.k + 1 THEN "partition: wrong number of boundaries"
    ELSE IF ~IsPartition(b, c.T, c.k) THEN "partition: boundaries are not a strictly increasing partition of [0,T]"
    ELSE IF b # Boundaries(c.T, c.k) THEN "drift: boundaries differ from round-half-even model"
    ELSE "ok"
TInit == ci = 1 /\ TLCSet(1, << >>)
TNext == /\ ci <= Len(Cases)
         /\ LET c == Cases[ci] IN TLCSet(1, Append(TLCGet(1), [ id |-> c.id, v |-> Verdict(c) ]))
         /\ ci' = ci + 1
TSpec == TInit /\ [][TNext]_ci
Post == ndJsonSerialize(IOEnv.VERDICT_FILE, TLCGet(1))
=============================================================================
