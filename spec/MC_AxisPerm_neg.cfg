SPECIFICATION Spec
CONSTANTS
  Shapes <- ShapesN
  Kinds <- KindsN
  MaxT = 1
  Variant = "pml_branch"
INVARIANT TypeOK
INVARIANT PermInv
INVARIANT PermBijective
INVARIANT PermCubeId
CHECK_DEADLOCK FALSE
