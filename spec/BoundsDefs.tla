--------------------------- MODULE BoundsDefs ---------------------------
(* Pure rules of "a BoundaryConfig becomes six boundary objects and where they sit"
   (objects/boundaries/initialization.py BoundaryConfig / boundary_objects_from_config,
    objects/boundaries/utils.py compute_extent / axis_direction_from_kind, fdtd/update.py
    get_wrap_padding_axes, utils/extend_pml.py extend_material_to_pml), shared by Bounds.tla,
   BoundsExtend.tla and Trace_Bounds.tla.

   Faces are numbered in the order of BoundaryConfig.get_dict():
        1 min_x   2 max_x   3 min_y   4 max_y   5 min_z   6 max_z
   an axis a in 1..3 has n cells 0..n-1, an interval <<s,e>> covers the cells s..e-1.
   Parameter fields are numbered
        1 kappa_start 2 kappa_end 3 kappa_order 4 alpha_start 5 alpha_end 6 alpha_order
        7 sigma_start 8 sigma_end 9 sigma_order                                               *)
EXTENDS Integers, Sequences, FiniteSets, TLC

Faces  == 1..6
Axes   == 1..3
Fields == 1..9
AxisOf(f)  == ((f - 1) \div 2) + 1
IsMin(f)   == f % 2 = 1
DirOf(f)   == IF IsMin(f) THEN "-" ELSE "+"
MinFace(a) == 2 * a - 1
MaxFace(a) == 2 * a
FacesOf(a) == { MinFace(a), MaxFace(a) }
FaceName   == << "min_x", "max_x", "min_y", "max_y", "min_z", "max_z" >>
Perp(f, g) == AxisOf(f) # AxisOf(g)

Types == { "pml", "periodic", "pec", "pmc", "bloch" }
ClassOf(t) == CASE t = "pml"                   -> "PerfectlyMatchedLayer"
                [] t \in {"periodic", "bloch"} -> "BlochBoundary"
                [] t = "pec"                   -> "PerfectElectricConductor"
                [] t = "pmc"                   -> "PerfectMagneticConductor"
                [] OTHER                       -> "error"
Wraps(t)        == t \in {"periodic", "bloch"}            \* boundary kinds that connect opposite sides
ThickOf(t, th)  == IF t = "pml" THEN th ELSE 1            \* only a PML uses the configured thickness
HasParams(t)    == t = "pml"                              \* only a PML carries kappa/alpha/sigma
BlochOf(t, bv)  == IF t = "bloch" THEN bv ELSE << 0, 0, 0 >>   \* "periodic" = Bloch boundary with zero vector

\* which face's configuration entry the per-face table holds for face f ("code" = its own)
TableFace(f, variant) == IF variant = "copy_paste" /\ f = 3 THEN 1 ELSE f

\* from_uniform_bound: every face gets the uniform type unless overridden ("none" = no override)
EffType(base, ov, f) == IF ov[f] = "none" THEN base ELSE ov[f]

\* ---------- placement (arithmetic, code shaped) ----------
Max2(a, b) == IF a >= b THEN a ELSE b
Min2(a, b) == IF a <= b THEN a ELSE b
SlabIv(f, th, n, variant) == IF IsMin(f) <=> (variant # "wrong_end") THEN << 0, th >> ELSE << n - th, n >>
Slice3(f, th, dims, variant) == [ a \in Axes |-> IF a = AxisOf(f) THEN SlabIv(f, th, dims[a], variant) ELSE << 0, dims[a] >> ]
IvCap(i, j) == << Max2(i[1], j[1]), Min2(i[2], j[2]) >>            \* interval intersection (empty if [1] >= [2])
BoxCap(b, c) == [ a \in Axes |-> IvCap(b[a], c[a]) ]

\* ---------- placement (declarative, the user's words) ----------
CellsOf(iv) == iv[1] .. (iv[2] - 1)
SlabCells(f, th, n) == IF IsMin(f) THEN { c \in 0..(n - 1) : c < th } ELSE { c \in 0..(n - 1) : c >= n - th }
AllCells(n) == 0..(n - 1)

\* ---------- wrap padding ----------
Paired(types, a) == Wraps(types[MinFace(a)]) <=> Wraps(types[MaxFace(a)])
Legal(types)     == \A a \in Axes : Paired(types, a)
WrapAxis(types, a, variant) ==
    IF variant = "min_only" THEN Wraps(types[MinFace(a)])
    ELSE Wraps(types[MinFace(a)]) \/ Wraps(types[MaxFace(a)])

\* ---------- interior / extension of materials into the PML ----------
Lo(types, thick, a)    == IF types[MinFace(a)] = "pml" THEN thick[MinFace(a)] ELSE 0            \* first cell outside the min PML
Hi(types, thick, a, n) == IF types[MaxFace(a)] = "pml" THEN n - thick[MaxFace(a)] ELSE n        \* one past the last cell outside the max PML
ClampTo(c, lo, hi) == IF c < lo THEN lo ELSE IF c >= hi THEN hi - 1 ELSE c
\* BoundaryConfig.get_inside_boundary_slice keeps one extra cell of distance from every PML
InsideIv(types, thick, a, n) == << IF types[MinFace(a)] = "pml" THEN thick[MinFace(a)] + 1 ELSE 0,
                                   IF types[MaxFace(a)] = "pml" THEN n - thick[MaxFace(a)] - 1 ELSE n >>
\* index of the layer extend_material_to_pml copies from ("code": the non-PML cell next to the PML)
EdgeOf(f, th, n, variant) == IF variant = "edge_off" THEN (IF IsMin(f) THEN th - 1 ELSE n - th)
                             ELSE (IF IsMin(f) THEN th ELSE n - th - 1)
=========================================================================
