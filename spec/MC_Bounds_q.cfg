SPECIFICATION Spec
CONSTANTS TypeSet = {"pml", "periodic", "pec", "pmc", "bloch"}  BaseSet = {"pml", "periodic", "other"}  OvSet = {"none", "pec", "bloch"}
          MaxTh = 2  ThickMode = "one"  Scope = "near"  NX = 5  NY = 6  NZ = 7  Variant = "code"
INVARIANT TypeOK
INVARIANT ErrorIffUnknown
INVARIANT TablesPerFace
INVARIANT ClassPerFace
INVARIANT ThicknessRule
INVARIANT ParamsPerFace
INVARIANT BlochVector
INVARIANT SlabFlush
INVARIANT OppositeDisjoint
INVARIANT CornerExact
INVARIANT WrapIffPeriodic
INVARIANT InsideAvoidsPml
CHECK_DEADLOCK FALSE
