-------------------------- MODULE Trace_Smooth --------------------------
(* Validates what the REAL GaussianSmoothing2D.__call__ (continuous.py on /repo/src) returned, using the
   definitions of SmoothDefs.tla that Smooth.tla model-checks over abstract kernels.

   All designs and padding vectors are small integers (|v| <= 8).  Outputs are float64; the harness sends
   them multiplied by `scale` (10^8) and rounded, so one unit is 1e-8 and every comparison carries the
   tolerance `tol` (units; 3 units = 3e-8 absolute, about 4e-9 of the value range) - exactness is impossible
   because the Gaussian weights are irrational.
   The kernel the implementation built (_create_gaussian_kernel) is sent as integers in units of 1e-9 (K9)
   and of 1e-4 (K4); the facts the abstract spec relies on are asserted on it (non-negative, unit sum,
   mirror symmetric).

   kinds of cases
     "single"  x, pads -> o            Range;  Constants when x and all given paddings are one constant
     "affine"  x, y, a, b, z, pads -> ox, oy, oz, o0      z = a*x + b*y is checked, then
                                       oz = a*ox + b*oy + (1 - a - b)*o0
     "mirror"  axis, x, pads, mx, mpads -> ox, omx        mx / mpads are checked to be the mirror images,
                                       then omx = mirror(ox)
   detail (drift only): o agrees with the padded convolution Num/KSum of SmoothDefs evaluated with the
   1e-4 kernel, within the quantisation bound (cases with model = 1).                                   *)
EXTENDS Integers, Sequences, FiniteSets, TLC, TLCExt, Json, IOUtils

D == INSTANCE SmoothDefs

Cases == JsonDeserialize(IOEnv.TRACE_FILE)
VARIABLES ci

IsArr(a, nx, ny) == Len(a) = nx /\ \A i \in 1..nx : Len(a[i]) = ny
PadsOK(p, nx, ny) == /\ Len(p.l0) \in {0, ny} /\ Len(p.h0) \in {0, ny}
                     /\ Len(p.l1) \in {0, nx} /\ Len(p.h1) \in {0, nx}
Small(a) == \A i \in 1..Len(a) : \A j \in 1..Len(a[i]) : a[i][j] \in -8..8

WellFormed(c) ==
    /\ c.kind \in {"single", "affine", "mirror"}
    /\ c.dm[1] \in 1..16 /\ c.dm[2] \in 1..16
    /\ IsArr(c.x, c.dm[1], c.dm[2]) /\ Small(c.x) /\ PadsOK(c.pads, c.dm[1], c.dm[2])
    /\ Len(c.K9) = Len(c.K4) /\ Len(c.K9) % 2 = 1 /\ \A a \in 1..Len(c.K9) : Len(c.K9[a]) = Len(c.K9) /\ Len(c.K4[a]) = Len(c.K9)
    /\ c.scale = 100000000 /\ c.tol \in 0..50
    /\ IsArr(c.ox, c.dm[1], c.dm[2])
    /\ (c.kind = "affine" => /\ IsArr(c.y, c.dm[1], c.dm[2]) /\ IsArr(c.z, c.dm[1], c.dm[2]) /\ Small(c.z)
                             /\ c.z = D!Comb(c.a, c.x, c.b, c.y)
                             /\ IsArr(c.oy, c.dm[1], c.dm[2]) /\ IsArr(c.oz, c.dm[1], c.dm[2]) /\ IsArr(c.o0, c.dm[1], c.dm[2]))
    /\ (c.kind = "mirror" => /\ c.axis \in {0, 1}
                             /\ c.mx = D!MirrorArr(c.x, c.axis)
                             /\ c.mpads = D!MirrorPads(c.pads, c.axis)
                             /\ IsArr(c.omx, c.dm[1], c.dm[2]))

KernelVerdict(c) ==
    LET K == c.K9  n == Len(c.K9) IN
    IF ~D!KNonNeg(K) THEN "drift: kernel has a negative weight"
    ELSE IF D!Abs(D!KSum(K) - 1000000000) > n * n THEN "drift: kernel weights do not sum to one"
    ELSE IF ~D!KSymmetric(K) THEN "drift: kernel is not mirror symmetric"
    ELSE "ok"

SingleVerdict(c) ==
    LET vals == D!AllValues(c.x, c.pads)
        lo   == D!MinOf(vals) * c.scale - c.tol
        hi   == D!MaxOf(vals) * c.scale + c.tol
        o    == c.ox
    IN  IF \E i \in 1..Len(o) : \E j \in 1..Len(o[i]) : o[i][j] < lo \/ o[i][j] > hi
        THEN "range: an output value lies outside the range of the input and padding values"
        ELSE IF Cardinality(vals) = 1 /\ ~D!Near(o, D!ConstArr(c.x[1][1] * c.scale, c.dm[1], c.dm[2]), c.tol)
        THEN "constants: a constant design (matching or default padding) was changed"
        ELSE "ok"

AffineVerdict(c) ==
    LET a == c.a  b == c.b
        ox == c.ox  oy == c.oy  oz == c.oz  o0 == c.o0
        k  == D!Abs(a) + D!Abs(b) + D!Abs(1 - a - b) + 1
    IN  IF \E i \in 1..Len(oz) : \E j \in 1..Len(oz[i]) :
              D!Abs(oz[i][j] - (a * ox[i][j] + b * oy[i][j] + (1 - a - b) * o0[i][j])) > k * c.tol
        THEN "affine: S(a*x + b*y) differs from a*S(x) + b*S(y) + (1-a-b)*S(0)"
        ELSE "ok"

MirrorVerdict(c) ==
    IF ~D!Near(c.omx, D!MirrorArr(c.ox, c.axis), 2 * c.tol)
    THEN "mirror: smoothing the mirrored design with mirrored padding is not the mirrored result"
    ELSE "ok"

\* detail: the padded convolution itself, with the kernel quantised to 1e-4 (o4 = output in units of 1e-4)
ModelVerdict(c) ==
    LET K == c.K4  n == Len(c.K4)  s == D!KSum(c.K4)
        num == D!Num(c.x, c.pads, K, "edge")
        o4  == c.o4
        bound == (8 * n * n + 2) * s
    IN  IF \E i \in 1..Len(o4) : \E j \in 1..Len(o4[i]) : D!Abs(o4[i][j] * s - num[i][j] * 10000) > bound
        THEN "drift: output differs from the edge-padded convolution model beyond kernel quantisation"
        ELSE "ok"

First(vs) == IF \E k \in 1..Len(vs) : vs[k] # "ok" THEN vs[CHOOSE k \in 1..Len(vs) : vs[k] # "ok" /\ \A m \in 1..(k - 1) : vs[m] = "ok"] ELSE "ok"

Verdict(c) ==
    IF ~WellFormed(c) THEN "malformed: record shape or input relation"
    ELSE IF c.finite # 1 THEN "output: not finite or of the wrong shape"
    ELSE First(<< IF c.kind = "single" THEN SingleVerdict(c) ELSE IF c.kind = "affine" THEN AffineVerdict(c) ELSE MirrorVerdict(c),
                  KernelVerdict(c),
                  IF c.model = 1 THEN ModelVerdict(c) ELSE "ok" >>)

TInit == ci = 1 /\ TLCSet(1, << >>)
TNext == /\ ci <= Len(Cases)
         /\ LET c == Cases[ci] IN TLCSet(1, Append(TLCGet(1), [ id |-> c.id, v |-> Verdict(c) ]))
         /\ ci' = ci + 1
TSpec == TInit /\ [][TNext]_ci

Post == ndJsonSerialize(IOEnv.VERDICT_FILE, TLCGet(1))
=======================================================================
