------------------------ MODULE Trace_Recorder ------------------------
(* Validates executions of the REAL Recorder (init_state / compress / decompress on /repo/src) against
   Recorder.tla.  A case is one recording run: events  compress(t, slot written, values)  for
   t = 0..T-1 in order, then decompress(t, values) events.  Every event is one step of this spec; the
   spec keeps its own latent store, updated by the spec's Compress rule from the logged values, and
   compares the implementation's decompressed values with the spec's DecompressFrom(store) AND with the
   property's Expected(history).  Verdicts are total: the first failing clause of a case is kept and the
   remaining events are still consumed.                                                              *)
EXTENDS Integers, Sequences, FiniteSets, TLC, TLCExt, Json, IOUtils

R == INSTANCE RecorderDefs

NoValT == -999999
Cases == JsonDeserialize(IOEnv.TRACE_FILE)

VARIABLES ci,      \* case index (1-based)
          l,       \* next event index inside the case
          st,      \* spec-side latent store: sequence over channels of [slot -> value]
          bad      \* first failing clause of the current case ("" = none so far)
tvars == << ci, l, st, bad >>

C      == Cases[ci]
NCh(c) == c.nch
FreshStore(c) == [ ch \in 1..c.nch |-> [ a \in 0..(R!ArraySize(c.T, c.k, c.start) - 1) |-> NoValT ] ]
\* value history of channel ch, read back from the logged compress events (events 1..T are the compresses)
HistOf(c, ch) == [ u \in 0..(c.T - 1) |-> c.events[u + 1].vals[ch] ]

Note(cl) == IF bad = "" THEN cl ELSE bad

TInit == /\ ci = 1 /\ l = 1 /\ bad = ""
         /\ st = IF Len(Cases) >= 1 THEN FreshStore(Cases[1]) ELSE << >>
         /\ TLCSet(1, << >>)

CompressEv ==
    LET e == C.events[l] IN
    /\ e.ev = "compress"
    /\ LET wellformed == e.t = l - 1 /\ l <= C.T
           slotOK == e.slot = R!SlotOf(C.T, C.k, C.start, e.t)
       IN /\ bad' = IF ~wellformed THEN Note("malformed: compress order")
                    ELSE IF ~slotOK THEN Note("compress: wrong slot written")
                    ELSE IF C.array_size # R!ArraySize(C.T, C.k, C.start) THEN Note("init: latent array size")
                    ELSE bad
          /\ st' = IF wellformed /\ R!IsSaved(C.T, C.k, C.start, e.t)
                   THEN [ ch \in 1..C.nch |-> [ st[ch] EXCEPT ![R!Idx(C.T, C.k, C.start, e.t)] = e.vals[ch] ] ]
                   ELSE st
    /\ l' = l + 1 /\ ci' = ci

DecompressEv ==
    LET e == C.events[l] IN
    /\ e.ev = "decompress"
    /\ LET inRange == e.t >= C.start /\ e.t < C.T /\ l > C.T
           modelOK == \A ch \in 1..C.nch :
                         R!RatEq(<< e.vals[ch], 1 >>, R!DecompressFrom(st[ch], C.T, C.k, C.start, e.t, "save_list"))
           propOK  == \A ch \in 1..C.nch :
                         R!RatEq(<< e.vals[ch], 1 >>, R!Expected(HistOf(C, ch), C.T, C.k, C.start, e.t))
       IN bad' = IF ~inRange THEN Note("malformed: decompress out of range")
                 ELSE IF e.dev > C.tol THEN Note("decompress: value not exact")
                 ELSE IF ~propOK THEN Note("decompress: value differs from recorded/interpolated history")
                 ELSE IF ~modelOK THEN Note("decompress: differs from model store")
                 ELSE bad
    /\ l' = l + 1 /\ ci' = ci /\ st' = st

NextCase ==
    /\ l > Len(C.events)
    /\ TLCSet(1, Append(TLCGet(1), [ id |-> C.id, v |-> IF bad = "" THEN "ok" ELSE bad ]))
    /\ ci' = ci + 1 /\ l' = 1 /\ bad' = ""
    /\ st' = IF ci + 1 <= Len(Cases) THEN FreshStore(Cases[ci + 1]) ELSE << >>

TNext == /\ ci <= Len(Cases)
         /\ IF l > Len(C.events) THEN NextCase ELSE (CompressEv \/ DecompressEv)
TSpec == TInit /\ [][TNext]_tvars

Post == ndJsonSerialize(IOEnv.VERDICT_FILE, TLCGet(1))
=======================================================================
