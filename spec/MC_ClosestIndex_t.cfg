SPECIFICATION Spec
CONSTANTS
  MaxN = 5
  Shapes <- Shapes23
  BigShapes <- Shapes4
  BigN = 2
  MatSets <- MatSetsT
  Variant = "spec"
INVARIANT TypeOK
INVARIANT ShapeKept
INVARIANT Nearest
INVARIANT GradOne
INVARIANT RoundIsNearest
CHECK_DEADLOCK FALSE
