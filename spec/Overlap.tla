---------------------------- MODULE Overlap ----------------------------
(* C29 - sources and detectors see the device materials after parameters are applied.

   fdtdx sets an object up ("apply": sample the material arrays inside the object's box and derive
   the object's state from them) at one of two moments (fdtd/initialization.py):
     place_objects : every object NOT flagged by some device is applied against the pre-device arrays
     apply_params  : device parameters are written into the material arrays, device by device, and then
                     every object flagged by some device is applied against the post-device arrays
   where "flagged" is Device.check_overlap(object) (objects/object.py).

   The machine below has one action per code-level step:
     PlaceApply  == the object loop at the end of place_objects            (object oi)
     ApplyParams == one iteration of the device loop of apply_params        (device di+1)
     Reapply     == the object loop at the end of apply_params              (object oi)
   The material arrays are the exact integer model of OverlapDefs (PostVal); an object's state is the
   sequence of material values it sampled (Snap), << >> while it has never been applied.

   Property C29 (StateIsFresh): when apply_params returns, every object whose box shares a cell with
   a device holds exactly the state a fresh apply against the post-device arrays gives - for every
   one of the 13 x 13 x 13 Allen relations between the boxes.  The flag rule is a CONSTANT so that the
   rule in the code before the fix ("endpoint_any_axis") is the negative instance.                  *)
EXTENDS OverlapDefs

CONSTANTS N,       \* cells per axis of the lattice
          Rule,    \* flag rule, see OverlapDefs!Flag
          Scene    \* "reps": one device, one object ranging over one representative box per Allen triple (13^3)
                   \* "all" : one device, one object ranging over every box of the lattice
                   \* "pair": two devices, two objects ranging over axis sweeps + diagonal boxes
                   \* "pairq": as "pair" with the sweep along the x axis only and representative intervals only (quick tier)

Cube(iv) == << iv, iv, iv >>
Devs == IF Scene \in {"pair", "pairq"} THEN << Cube(<<0, 3>>), Cube(<<4, 7>>) >> ELSE << Cube(RepDev) >>
NDev == Len(Devs)
NObj == IF Scene \in {"pair", "pairq"} THEN 2 ELSE 1

RepIvs == { Rep(r) : r \in AllenNames }
SweepAxes == IF Scene = "pairq" THEN {1} ELSE 1..3
SweepIvs  == IF Scene = "pairq" THEN RepIvs \cup { <<1, 2>> } ELSE Intervals(N)
SweepBoxes == { B \in SweepIvs \X SweepIvs \X SweepIvs :
                  \/ \E a \in SweepAxes : \A b \in (1..3) \ {a} : B[b] = <<1, 2>>      \* inside device 1 on the other axes
                  \/ (B[1] = B[2] /\ B[2] = B[3]) }                               \* diagonal
ObjBoxes == CASE Scene = "reps" -> RepIvs \X RepIvs \X RepIvs
              [] Scene = "all"  -> Intervals(N) \X Intervals(N) \X Intervals(N)
              [] Scene \in {"pair", "pairq"} -> SweepBoxes

ASSUME N >= 7 /\ RepsOK
\* every Allen relation occurs on every axis of the enumerated boxes
ASSUME Scene \in {"reps", "all"} =>
         \A r \in AllenNames, a \in 1..3 : \E O \in ObjBoxes : Allen(O[a], Devs[1][a]) = r
\* the three statements of "the regions intersect" agree: interval test, cell sets, Allen classes
ASSUME \A O \in ObjBoxes, d \in 1..NDev :
         /\ Intersects(O, Devs[d]) <=> (BoxCells(O) \cap BoxCells(Devs[d]) # {})
         /\ Intersects(O, Devs[d]) <=> (\A a \in 1..3 : Allen(O[a], Devs[d][a]) \in SharingNames)

VARIABLES objs,    \* sequence of object boxes (fixed at Init)
          pc,      \* "place" | "params" | "reapply" | "done"
          oi,      \* next object of the current object loop
          di,      \* devices whose parameters have been written so far
          snap,    \* per object: sampled material values, << >> = never applied
          napp     \* per object: number of apply calls so far
vars == << objs, pc, oi, di, snap, napp >>

Flagged(O) == \E d \in 1..NDev : Flag(Rule, Devs[d], O)
\* state an apply gives when k devices have been written
Snap(O, k) == [ i \in 1..BoxLen(O) |-> PostVal(CellAt(O, i), Devs, k) ]

Init == /\ objs \in [ 1..NObj -> ObjBoxes ]
        /\ pc = "place" /\ oi = 1 /\ di = 0
        /\ snap = [ o \in 1..NObj |-> << >> ]
        /\ napp = [ o \in 1..NObj |-> 0 ]

PlaceApply ==
    /\ pc = "place"
    /\ IF ~Flagged(objs[oi])
       THEN snap' = [ snap EXCEPT ![oi] = Snap(objs[oi], di) ] /\ napp' = [ napp EXCEPT ![oi] = @ + 1 ]
       ELSE UNCHANGED << snap, napp >>
    /\ IF oi = NObj THEN pc' = "params" /\ oi' = 1 ELSE pc' = pc /\ oi' = oi + 1
    /\ UNCHANGED << objs, di >>

ApplyParams ==
    /\ pc = "params"
    /\ IF di < NDev THEN di' = di + 1 /\ pc' = pc ELSE di' = di /\ pc' = "reapply"
    /\ UNCHANGED << objs, oi, snap, napp >>

Reapply ==
    /\ pc = "reapply"
    /\ IF Flagged(objs[oi])
       THEN snap' = [ snap EXCEPT ![oi] = Snap(objs[oi], di) ] /\ napp' = [ napp EXCEPT ![oi] = @ + 1 ]
       ELSE UNCHANGED << snap, napp >>
    /\ IF oi = NObj THEN pc' = "done" /\ oi' = 1 ELSE pc' = pc /\ oi' = oi + 1
    /\ UNCHANGED << objs, di >>

Next == PlaceApply \/ ApplyParams \/ Reapply
Spec == Init /\ [][Next]_vars

\* ---------- properties ----------
TypeOK == /\ pc \in {"place", "params", "reapply", "done"} /\ oi \in 1..NObj /\ di \in 0..NDev
          /\ \A o \in 1..NObj : snap[o] = << >> \/ Len(snap[o]) = BoxLen(objs[o])

\* C29: an object intersecting a device ends with the state of a fresh set-up against the final arrays
StateIsFresh ==
    pc = "done" => \A o \in 1..NObj : NeedsReapply(objs[o], Devs) => snap[o] = Snap(objs[o], NDev)
\* consequence for the other objects: their earlier set-up is still valid (no device cell in their box)
AllValid == pc = "done" => \A o \in 1..NObj : snap[o] = Snap(objs[o], NDev)
\* every object is set up exactly once over place_objects + apply_params
AppliedOnce == pc = "done" => \A o \in 1..NObj : napp[o] = 1
\* nothing is set up while the device loop is running, and a set-up never sees a half-written array
NoApplyDuringParams == [][ pc = "params" => snap' = snap ]_vars
========================================================================
