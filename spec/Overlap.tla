---------------------------- MODULE Overlap ----------------------------
(* C29 - sources and detectors see the device materials after parameters are applied.

   fdtdx sets an object up ("apply": sample the material arrays inside the object's box and derive
   the object's state from them) at one of two moments (fdtd/initialization.py):
     place_objects : every object NOT flagged by some device is applied against the pre-device arrays
     apply_params  : device parameters are written into the material arrays, device by device, then
                     the arrays handed to the objects are fixed (inv_permittivities and the
                     stop_gradient'd copies of dispersive_c1..c4 / electric_conductivity), and every
                     object flagged by some device is applied against them
   where "flagged" is Device.check_overlap(object) (objects/object.py).  apply_params may be called
   again on what it returned, with other parameters.

   The machine below has one action per code-level step:
     PlaceApply  == the object loop at the end of place_objects                 (object oi)
     ApplyParams == one iteration of the device loop of apply_params             (device di+1)
     SnapshotAux == taking the copies of the dispersion / conductivity arrays that the object loop uses
     Reapply     == the object loop at the end of apply_params                   (object oi)
     NextCall    == apply_params is called again with the other parameter pattern
   The material arrays are the exact integer model of OverlapDefs: a history `writes` of device writes
   determines two per-cell attributes, eps (inv_permittivities) and aux (dispersion/conductivity
   class).  An object's state is the pair of sequences it sampled, << >> while never applied.

   Property C29 (StateIsFresh): whenever apply_params returns, every object whose box shares a cell
   with a device holds exactly the state a fresh apply against ALL returned arrays gives - for every
   one of the 13 x 13 x 13 Allen relations between the boxes, and after every call (the state follows
   the LAST parameters).  Negative instances: the flag rule of the code before the fix
   (Rule = "endpoint_any_axis"), and the dispersion/conductivity copies taken before the device loop
   (SnapWhen = "before_devices").                                                                   *)
EXTENDS OverlapDefs

CONSTANTS N,        \* cells per axis of the lattice
          Rule,     \* flag rule, see OverlapDefs!Flag
          SnapWhen, \* "after_devices" (the code) | "before_devices" (wrong: stale dispersion/conductivity)
          NCalls,   \* number of consecutive apply_params calls (patterns 0, 1, 0, ...)
          Scene     \* "reps": one device, one object ranging over one representative box per Allen triple (13^3)
                    \* "all" : one device, one object ranging over every box of the lattice
                    \* "pair": two devices, two objects ranging over axis sweeps + diagonal boxes
                    \* "pairq": as "pair" with the sweep along the x axis only and representative intervals only (quick tier)

Cube(iv) == << iv, iv, iv >>
Devs == IF Scene \in {"pair", "pairq"} THEN << Cube(<<0, 3>>), Cube(<<4, 7>>) >> ELSE << Cube(RepDev) >>
NDev == Len(Devs)
NObj == IF Scene \in {"pair", "pairq"} THEN 2 ELSE 1

RepIvs == { Rep(r) : r \in AllenNames }
SweepAxes == IF Scene = "pairq" THEN {1} ELSE 1..3
SweepIvs  == IF Scene = "pairq" THEN RepIvs \cup { <<1, 2>> } ELSE Intervals(N)
SweepBoxes == { B \in SweepIvs \X SweepIvs \X SweepIvs :
                  \/ \E a \in SweepAxes : \A b \in (1..3) \ {a} : B[b] = <<1, 2>>      \* inside device 1 on the other axes
                  \/ (B[1] = B[2] /\ B[2] = B[3]) }                               \* diagonal
ObjBoxes == CASE Scene = "reps" -> RepIvs \X RepIvs \X RepIvs
              [] Scene = "all"  -> Intervals(N) \X Intervals(N) \X Intervals(N)
              [] Scene \in {"pair", "pairq"} -> SweepBoxes

ASSUME N >= 7 /\ RepsOK /\ NCalls >= 1
\* every Allen relation occurs on every axis of the enumerated boxes
ASSUME Scene \in {"reps", "all"} =>
         \A r \in AllenNames, a \in 1..3 : \E O \in ObjBoxes : Allen(O[a], Devs[1][a]) = r
\* the three statements of "the regions intersect" agree: interval test, cell sets, Allen classes
ASSUME \A O \in ObjBoxes, d \in 1..NDev :
         /\ Intersects(O, Devs[d]) <=> (BoxCells(O) \cap BoxCells(Devs[d]) # {})
         /\ Intersects(O, Devs[d]) <=> (\A a \in 1..3 : Allen(O[a], Devs[d][a]) \in SharingNames)

VARIABLES objs,    \* sequence of object boxes (fixed at Init)
          pc,      \* "place" | "presnap" | "params" | "postsnap" | "reapply" | "returned"
          oi,      \* next object of the current object loop
          di,      \* devices written so far in the current apply_params call
          call,    \* number of the current apply_params call (0 during place_objects)
          writes,  \* history of device writes << device, pattern >> (determines all material arrays)
          auxk,    \* length of the history prefix whose dispersion/conductivity arrays the object loop is handed
          snap,    \* per object: [eps, aux] sampled sequences, << >> = never applied
          napp     \* per object: number of apply calls so far
vars == << objs, pc, oi, di, call, writes, auxk, snap, napp >>

Flagged(O) == \E d \in 1..NDev : Flag(Rule, Devs[d], O)
\* state an apply gives: permittivity from the current arrays, dispersion/conductivity from the copies
Sampled(O, ke, ka) == [ eps |-> SnapEps(O, Devs, writes, ke), aux |-> SnapAux(O, Devs, writes, ka) ]
Fresh(O) == Sampled(O, Len(writes), Len(writes))

Init == /\ objs \in [ 1..NObj -> ObjBoxes ]
        /\ pc = "place" /\ oi = 1 /\ di = 0 /\ call = 0
        /\ writes = << >> /\ auxk = 0
        /\ snap = [ o \in 1..NObj |-> << >> ]
        /\ napp = [ o \in 1..NObj |-> 0 ]

PlaceApply ==
    /\ pc = "place"
    /\ IF ~Flagged(objs[oi])
       THEN snap' = [ snap EXCEPT ![oi] = Sampled(objs[oi], 0, 0) ] /\ napp' = [ napp EXCEPT ![oi] = @ + 1 ]
       ELSE UNCHANGED << snap, napp >>
    /\ IF oi = NObj THEN pc' = "presnap" /\ oi' = 1 /\ call' = 1 ELSE pc' = pc /\ oi' = oi + 1 /\ call' = call
    /\ UNCHANGED << objs, di, writes, auxk >>

\* the copies of the dispersion / conductivity arrays for the object loop: where the code takes them
\* (after the device loop) or, in the wrong variant, at the top of apply_params
SnapshotAux ==
    /\ pc \in {"presnap", "postsnap"}
    /\ auxk' = IF (pc = "presnap") = (SnapWhen = "before_devices") THEN Len(writes) ELSE auxk
    /\ pc' = IF pc = "presnap" THEN "params" ELSE "reapply"
    /\ UNCHANGED << objs, oi, di, call, writes, snap, napp >>

ApplyParams ==
    /\ pc = "params"
    /\ IF di < NDev
       THEN di' = di + 1 /\ pc' = pc /\ writes' = Append(writes, << di + 1, (call - 1) % 2 >>)
       ELSE di' = 0 /\ pc' = "postsnap" /\ writes' = writes
    /\ UNCHANGED << objs, oi, call, auxk, snap, napp >>

Reapply ==
    /\ pc = "reapply"
    /\ IF Flagged(objs[oi])
       THEN snap' = [ snap EXCEPT ![oi] = Sampled(objs[oi], Len(writes), auxk) ] /\ napp' = [ napp EXCEPT ![oi] = @ + 1 ]
       ELSE UNCHANGED << snap, napp >>
    /\ IF oi = NObj THEN pc' = "returned" /\ oi' = 1 ELSE pc' = pc /\ oi' = oi + 1
    /\ UNCHANGED << objs, di, call, writes, auxk >>

NextCall ==
    /\ pc = "returned" /\ call < NCalls
    /\ call' = call + 1 /\ pc' = "presnap"
    /\ UNCHANGED << objs, oi, di, writes, auxk, snap, napp >>

Next == PlaceApply \/ SnapshotAux \/ ApplyParams \/ Reapply \/ NextCall
Spec == Init /\ [][Next]_vars

\* ---------- properties ----------
TypeOK == /\ pc \in {"place", "presnap", "params", "postsnap", "reapply", "returned"} /\ oi \in 1..NObj /\ di \in 0..NDev
          /\ call \in 0..NCalls /\ auxk \in 0..Len(writes) /\ Len(writes) <= NCalls * NDev
          /\ \A o \in 1..NObj : snap[o] = << >> \/ (Len(snap[o].eps) = BoxLen(objs[o]) /\ Len(snap[o].aux) = BoxLen(objs[o]))

\* C29: whenever apply_params returns, an object intersecting a device has the state of a fresh set-up
\* against the returned arrays - permittivity AND dispersion/conductivity - i.e. it follows the last parameters
StateIsFresh ==
    pc = "returned" => \A o \in 1..NObj : NeedsReapply(objs[o], Devs) => snap[o] = Fresh(objs[o])
\* consequence for the other objects: their earlier set-up is still valid (no device cell in their box)
AllValid == pc = "returned" => \A o \in 1..NObj : snap[o] = Fresh(objs[o])
\* every object is set up once at placement or once per apply_params call, never both
AppliedOnce == pc = "returned" => \A o \in 1..NObj : napp[o] = IF Flagged(objs[o]) THEN call ELSE 1
\* the returned arrays are those of complete calls with alternating patterns
HistoryComplete == pc = "returned" => writes = Calls(Devs, call)
\* nothing is set up while the device loop is running, and a set-up never sees a half-written array
NoApplyDuringParams == [][ (pc \in {"presnap", "params", "postsnap"}) => (snap' = snap) ]_vars
========================================================================
