SPECIFICATION Spec
CONSTANTS Mode = "energy"  Variant = "ok"  Family = "list"  List = { 1021013, 3081203 }  Steps = 1  PairMod = 1
          Extra = { 1000 }
INVARIANT TypeOK
INVARIANT WallsHold
INVARIANT EnergyBalance
INVARIANT NeverIncreases
CHECK_DEADLOCK FALSE
