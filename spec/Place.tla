----------------------------- MODULE Place -----------------------------
(* Constraint solver of fdtdx.place_objects (fdtd/initialization.py::_apply_constraints_iteratively) as a state
   machine over  S = [sh[o][a], sl[o][a][side], fail]  (PlaceDefs).  Two variants run one after the other on
   the same system `sys` (chosen by Init from a finite catalogue):

   phase "sched" -- the schedule of the CODE, one action per sub-step in program order:
        Top  ->  StaticPositions -> SlicesFromShapes -> ShapesFromSlices -> ApplyConstraint(1..n)  ->
        ExtendOrFinish (extension to infinity only if the iteration changed nothing; if that changes
        nothing either: unresolved objects are errors, closing bounds checks, stop)  -> Top ...
        Its outcome (success flag, all slices) is remembered in `ref`.
   phase "chaos" -- the same loop, but inside the constraint phase of every iteration ANY not yet applied
        constraint may fire next (each once per iteration, a possibly different order in every iteration).
        The three passes keep their program position (a user cannot permute them); their (object, axis)
        items commute (invariant PassItemsCommute) and the extension step reads only the state before it,
        so the order of the OBJECT list is immaterial and every order of the CONSTRAINT list is one
        behaviour of this variant.

   C27 (order independence) = Confluence: every terminal state of the chaotic variant has the outcome `ref`.
   C26 (soundness)          = Soundness:  every successful terminal state (either variant) satisfies all
        constraints (nearest-edge / closest-fitting-interval semantics), lies inside the volume with positive
        size, and unconstrained axes span the volume.

   EarlyBreak = TRUE models the code as it is: the loop is left at the top of an iteration as soon as every slot is
   filled, WITHOUT running the consistency checks again (negative instance: both properties fail).            *)
EXTENDS PlaceDefs, TLC, Json

CONSTANTS CatFile,      \* JSON catalogue (spec/Place_catalogue_*.json): grid, object-spec options, constraint catalogue
          MaxCons,      \* systems use every subset of the catalogue with at most MaxCons constraints (1..3)
          MaxSpec,      \* only the first MaxSpec static-spec options of every object are used
          EarlyBreak,   \* TRUE = the code as it is (see below); FALSE = intended design
          SkipKnown     \* TRUE = the code as it is: partial_real_position of an axis with both bounds set is never validated

Cat == JsonDeserialize(CatFile)
NCat == Len(Cat.cat)
ConSeqs ==
    {<< >>} \cup { << Cat.cat[i] >> : i \in 1..NCat }
    \cup (IF MaxCons >= 2 THEN { << Cat.cat[i], Cat.cat[j] >> : i \in 1..NCat, j \in 1..NCat } ELSE {})
    \cup (IF MaxCons >= 3 THEN { << Cat.cat[i], Cat.cat[j], Cat.cat[k] >> : i \in 1..NCat, j \in 1..NCat, k \in 1..NCat } ELSE {})
\* one system per constraint SET: keep only index-increasing sequences (Cat.cat entries carry their index `id`)
Increasing(cs) == \A i \in 1..(Len(cs) - 1) : cs[i].id < cs[i + 1].id
ObjChoices == { os \in [ 1..Len(Cat.specs) -> 1..20 ] : \A i \in 1..Len(Cat.specs) : os[i] <= Len(Cat.specs[i]) /\ os[i] <= MaxSpec }
Systems == { [ ed |-> Cat.ed, objs |-> << Cat.vol >> \o [ i \in 1..Len(Cat.specs) |-> Cat.specs[i][os[i]] ], cons |-> cs, fl |-> [ eb |-> EarlyBreak, sk |-> SkipKnown ] ] :
             os \in ObjChoices, cs \in { c \in ConSeqs : Increasing(c) } }

VARIABLES sys, phase, S, P, todo, ref, done
vars == << sys, phase, S, P, todo, ref, done >>

Init == /\ sys \in Systems /\ phase = "sched" /\ S = InitS(sys) /\ P = SchedInit
        /\ ref = [ ok |-> FALSE, sl |-> << >> ] /\ done = FALSE /\ todo = {}

\* ---------- the code's schedule ----------
Sched(pc) ==
    /\ phase = "sched" /\ ~done /\ P.pc = pc
    /\ LET r == SchedStep(sys, S, P, EarlyBreak) IN S' = r[1] /\ P' = r[2] /\ done' = (r[2].pc = "done")
    /\ UNCHANGED << sys, phase, ref, todo >>
Top              == Sched("top")
StaticPositions  == Sched("pos")
SlicesFromShapes == Sched("sfs")
ShapesFromSlices == Sched("shs")
ApplyConstraint  == Sched("con")
ExtendOrFinish   == Sched("ext")
\* remember the outcome and start the chaotic variant from the same initial state
StartChaos ==
    /\ phase = "sched" /\ done
    /\ ref' = Outcome(S) /\ phase' = "chaos" /\ S' = InitS(sys) /\ P' = SchedInit /\ done' = FALSE
    /\ UNCHANGED << sys, todo >>

\* ---------- the chaotic variant ----------
Live == phase = "chaos" /\ ~done
CPass(pc) ==
    /\ Live /\ P.pc = pc
    /\ LET r == SchedStep(sys, S, P, EarlyBreak) IN
          /\ S' = r[1] /\ P' = r[2] /\ done' = (r[2].pc = "done")
          /\ todo' = IF r[2].pc = "con" THEN 1..NCon(sys) ELSE {}
    /\ UNCHANGED << sys, phase, ref >>
CTop              == CPass("top")
CStaticPositions  == CPass("pos")
CSlicesFromShapes == CPass("sfs")
CShapesFromSlices == CPass("shs")
CExtendOrFinish   == CPass("ext")
CApplyConstraint(j) ==
    /\ Live /\ P.pc = "con" /\ j \in todo /\ ~S.fail
    /\ LET T == Con(sys, S, j) IN S' = T /\ P' = [ P EXCEPT !.changed = P.changed \/ ~SlotsEq(S, T) ]
    /\ todo' = todo \ {j}
    /\ UNCHANGED << sys, phase, ref, done >>
CConstraintsDone ==
    /\ Live /\ P.pc = "con" /\ (todo = {} \/ S.fail)
    /\ P' = [ P EXCEPT !.pc = IF S.fail THEN "done" ELSE "ext" ] /\ done' = S.fail /\ todo' = {}
    /\ UNCHANGED << sys, phase, S, ref >>

Next == \/ Top \/ StaticPositions \/ SlicesFromShapes \/ ShapesFromSlices \/ ApplyConstraint \/ ExtendOrFinish \/ StartChaos
        \/ CTop \/ CStaticPositions \/ CSlicesFromShapes \/ CShapesFromSlices \/ CExtendOrFinish
        \/ \E j \in 1..NCon(sys) : CApplyConstraint(j)
        \/ CConstraintsDone
Spec == Init /\ [][Next]_vars

\* ---------- properties ----------
\* C27: confluence -- whatever order the sub-steps take, the outcome is the one of the code's schedule
Confluence == (phase = "chaos" /\ done) => Outcome(S) = ref
\* C26: a successful terminal state satisfies everything
Soundness  == (done /\ ~S.fail) => Sound(sys, S.sl)
\* the (object, axis) items of one pass commute, so the order of the object list cannot matter
PassItemsCommute ==
    \A kind \in {"pos", "sfs", "shs"} : \A o1 \in Objs(sys), o2 \in Objs(sys), a1 \in Axes(sys), a2 \in Axes(sys) :
        (o1 < o2 \/ (o1 = o2 /\ a1 < a2)) =>
        LET x == Item(kind, sys, Item(kind, sys, S, o1, a1), o2, a2)
            y == Item(kind, sys, Item(kind, sys, S, o2, a2), o1, a1)
        IN x = y \/ (x.fail /\ y.fail)      \* after an error only the outcome "failed" matters (fail is absorbing)
\* slots are written once (except when the chaotic variant restarts from the initial state)
WriteOnce == [][ phase' = phase => \A o \in Objs(sys), a \in Axes(sys) :
                    /\ (S.sh[o][a] # U => S'.sh[o][a] = S.sh[o][a])
                    /\ \A s \in 1..2 : S.sl[o][a][s] # U => S'.sl[o][a][s] = S.sl[o][a][s] ]_vars
\* errors are never cleared
FailSticky == [][ (phase' = phase /\ S.fail) => S'.fail ]_vars
\* the schedule terminates well inside the iteration bound of the code (max_iter = 1000): at most one slot per iteration
=======================================================================
