--------------------------- MODULE Trace_TfsfRegion ---------------------------
(* X01 conformance.  One record = one observation of the REAL TFSFPlaneSourceRegion (checks/X01.py), three kinds:

   kind "probe"  one call of fdtdx.fdtd.update.update_E / update_H on all-zero fields with a ramp profile (value = time):
       axis, dir, q (E polarised along axis q), periodic (list of wrap axes), lo, hi (placed box), shape (grid),
       step, delaySteps, on (the switch is on at `step`), entries [{fld, comp, idx, sgn, clock2, off2}] = every non-zero
       injected value decoded as  sgn * C * (clock2 / 2 + off2 / (2 S) + M),  devPpb (decoding residual), tolPpb.
     TLC compares the SET of entries with the connecting condition derived in TfsfRegionDefs: which cells / components
     (faces, slices), sign (face sign x curl orientation x polarisation x direction), clock2 (E faces at the on-clock m,
     H faces at m + 1/2), off2 (incident field sampled at the Yee position of the NEIGHBOUR across the surface).
   kind "leak"   empty box in vacuum, energy density of every step: events [{t0, t1, leakMean, leakMax}] per carrier period,
     in ppb of the peak mean density inside; TLC: leakMax <= 5.5e-3 and leakMean <= 3e-4 (8e-4, 2.5e-3 with one, two wrap axes) in every window, interior carries the wave.
   kind "lin"    two runs with amplitude factor 1 and k: devPpt = max |F_k - k F_1| / max |k F_1| in 1e-12;
     TLC: exactly 0 when k is +-(a power of two), else <= 1e-9.                                                        *)
EXTENDS Integers, Sequences, FiniteSets, TLC, TLCExt, Json, IOUtils
D == INSTANCE TfsfRegionDefs
Cases == JsonDeserialize(IOEnv.TRACE_FILE)
VARIABLE ci

\* bounds in ppb of the peak (over time) mean energy density inside the box; each is >= 10 x what the unchanged code shows
\* (the residue is the numerical dispersion of the 3-D Yee grid at Courant number 0.57: the analytic incident wave is not an
\* exact solution of the discrete update).  The MAX density is a local measure and does not depend on the geometry; the MEAN
\* over the free space outside does: with wrap axes the outside is only the space in front of / behind the caps.
LeakMaxBound == 5500000                                            \* 5.5e-3      (unchanged code: <= 5.4e-4)
LeakMeanBound(nWrap) == CASE nWrap = 0 -> 300000                   \* 3e-4        (unchanged code: <= 2.7e-5)
                          [] nWrap = 1 -> 800000                   \* 8e-4        (<= 7.2e-5)
                          [] OTHER     -> 2500000                  \* 2.5e-3      (<= 2.5e-4)
InsideLo == 300                  \* 1e-3: peak over time of the mean energy density inside, unit amplitude plane wave = 0.5 .. 0.6
InsideHi == 800
LinTolPpt == 1000
SeqSet(s) == { s[i] : i \in 1..Len(s) }
Tup(s) == << s[1], s[2], s[3] >>

\* ------------------------------------------------------------------ probe
Conf(c) == D!Axes \ SeqSet(c.periodic)
\* cells that can carry a correction: one cell around the box on confined axes, the whole extent on wrap axes
Range(c, a) == IF a \in Conf(c) THEN (c.lo[a + 1] - 1)..(c.hi[a + 1]) ELSE 0..(c.shape[a + 1] - 1)
Dom(c) == { << i, j, k >> : i \in Range(c, 0), j \in Range(c, 1), k \in Range(c, 2) }
\* incident component of the OTHER field that drives `fld`:  E is driven by H (axis HAxis, sign HSgn), H by E (axis q, sign +1)
SrcComp(c, fld) == IF fld = "E" THEN D!HAxis(c.axis, c.q) ELSE c.q
SrcSgn(c, fld)  == IF fld = "E" THEN D!HSgn(c.axis, c.q, c.dir) ELSE 1
\* position of the sampled incident component along the propagation axis, half cells from the box lower corner
U(c, fld, nb) == 2 * (nb[c.axis + 1] - c.lo[c.axis + 1]) + (IF fld = "E" THEN 1 ELSE 0)
L2(c) == 2 * (c.hi[c.axis + 1] - c.lo[c.axis + 1])
Clock2(c, fld) == 2 * (c.step - c.delaySteps) + (IF fld = "H" THEN 1 ELSE 0)
Expected(c, origin) ==
    IF ~c.on THEN {}
    ELSE UNION { { [fld |-> t.fld, comp |-> t.comp, idx |-> t.idx, sgn |-> t.sgn * SrcSgn(c, fld), clock2 |-> Clock2(c, fld),
                    off2 |-> D!Off2(U(c, fld, t.nb), c.dir, origin, L2(c))] :
                   t \in { t \in D!Terms(fld, Dom(c), Tup(c.lo), Tup(c.hi), Conf(c)) :
                             t.src = SrcComp(c, fld) /\ D!Crossing(t, Tup(c.lo), Tup(c.hi), Conf(c)) } } : fld \in {"E", "H"} }
Observed(c) == { [fld |-> e.fld, comp |-> e.comp, idx |-> Tup(e.idx), sgn |-> e.sgn, clock2 |-> e.clock2, off2 |-> e.off2] : e \in SeqSet(c.entries) }
Cells(s) == { [fld |-> e.fld, comp |-> e.comp, idx |-> e.idx] : e \in s }
Signs(s) == { [fld |-> e.fld, comp |-> e.comp, idx |-> e.idx, sgn |-> e.sgn] : e \in s }
Clocks(s) == { [fld |-> e.fld, comp |-> e.comp, idx |-> e.idx, clock2 |-> e.clock2] : e \in s }
ProbeShape(c) ==
    /\ c.axis \in D!Axes /\ c.dir \in D!Dirs /\ c.q \in D!Axes \ {c.axis}
    /\ SeqSet(c.periodic) \subseteq D!Axes \ {c.axis}
    /\ Len(c.lo) = 3 /\ Len(c.hi) = 3 /\ Len(c.shape) = 3
    /\ \A a \in D!Axes : IF a \in Conf(c) THEN D!Placeable(c.lo[a + 1], c.hi[a + 1], c.shape[a + 1])
                                          ELSE c.lo[a + 1] = 0 /\ c.hi[a + 1] = c.shape[a + 1]
    /\ c.step >= 0 /\ c.delaySteps >= 0 /\ (c.on <=> c.step >= c.delaySteps)
    /\ \A e \in SeqSet(c.entries) : e.fld \in {"E", "H"} /\ e.comp \in D!Axes /\ Len(e.idx) = 3 /\ e.sgn \in {-1, 1}
    /\ Cardinality(SeqSet(c.entries)) = Len(c.entries)
    /\ c.homogeneous /\ c.normal /\ c.wrapOk
ProbeVerdict(c) ==
    IF ~ProbeShape(c) THEN "malformed: probe record"
    ELSE LET obs == Observed(c)
             expE == Expected(c, "entry")
             expL == Expected(c, "lower")
         IN IF ~c.on /\ obs # {} THEN "gate: the source injects while its switch is off"
            ELSE IF c.on /\ expE = {} THEN "malformed: empty expectation"
            ELSE IF Cells(obs) # Cells(expE) THEN "faces: the corrected cells / components are not those of the connecting condition (which face, which slice, which node)"
            ELSE IF c.devPpb > c.tolPpb THEN "offset: an injected value is not a lattice sample of the incident wave (amplitude factor or time offset)"
            ELSE IF Signs(obs) # Signs(expE) THEN "sign: a face injects with the wrong sign"
            ELSE IF Clocks(obs) # Clocks(expE) THEN "clock: E faces must sample the incident H at the on-clock m, H faces the incident E at m + 1/2"
            ELSE IF obs = expE THEN "ok"
            ELSE IF obs = expL THEN "causal: direction '-' takes the box LOWER corner as phase origin - the incident wave is inside the box at clock 0 (X01-F1)"
            ELSE "offset: the incident field is not sampled at the Yee position of the neighbour across the surface"

\* ------------------------------------------------------------------ leak
N(c) == Len(c.events)
LeakShape(c) ==
    /\ c.axis \in D!Axes /\ c.dir \in D!Dirs /\ c.pol \in {"h", "v", "obl"} /\ c.profile \in {"cw", "pulse"}
    /\ SeqSet(c.periodic) \subseteq D!Axes \ {c.axis} /\ c.switch \in {"on", "delay"}
    /\ (c.switch = "on" <=> c.delaySteps = 0) /\ c.startSteps > 0
    /\ N(c) >= 6 /\ c.nInside > 0 /\ c.nOutside > 0
    /\ \A i \in 1..N(c) : 0 <= c.events[i].t0 /\ c.events[i].t0 < c.events[i].t1 /\ c.events[i].t1 <= c.T
                          /\ c.events[i].leakMean >= 0 /\ c.events[i].leakMax >= c.events[i].leakMean
    /\ c.events[1].t0 = 0 /\ c.events[N(c)].t1 = c.T
    /\ \A i \in 1..(N(c) - 1) : c.events[i].t1 = c.events[i + 1].t0
Premise(c) == c.homogeneous /\ c.normal /\ c.wrapOk /\ c.cpwMilli >= 20000 /\ c.boxCells <= 16
WinOK(c, e) == e.leakMean <= LeakMeanBound(Len(c.periodic)) /\ e.leakMax <= LeakMaxBound
StartUp(c, e) == e.t0 < c.delaySteps + c.startSteps
LeakVerdict(c) ==
    IF ~LeakShape(c) THEN "malformed: leak record"
    ELSE IF ~Premise(c) THEN "malformed: premise (vacuum, normal incidence, wrap axes periodic, >= 20 cells per wavelength, box <= 16 cells)"
    ELSE IF ~c.insidePos \/ c.insidePeakMilli < InsideLo \/ c.insidePeakMilli > InsideHi
         THEN "inside: the box interior does not carry the incident plane wave of the stated amplitude"
    ELSE IF \E i \in 1..N(c) : StartUp(c, c.events[i]) /\ ~WinOK(c, c.events[i])
         THEN "quiet-start: field outside the empty box while the source switches on (max > 5.5e-3 or mean > 3e-4 / 8e-4 / 2.5e-3 of the interior energy density)"
    ELSE IF \E i \in 1..N(c) : ~WinOK(c, c.events[i])
         THEN "leak: field outside the empty box (max > 5.5e-3 or mean > 3e-4 / 8e-4 / 2.5e-3 of the interior energy density)"
    ELSE "ok"

\* ------------------------------------------------------------------ linearity
Abs(x) == IF x < 0 THEN 0 - x ELSE x
PowerOfTwo(k) == k \in {1, 2, 4, 8, 16}
LinVerdict(c) ==
    IF ~(c.via \in {"saf", "amp"} /\ c.k # 0 /\ c.k # 1 /\ c.devPpt >= 0) THEN "malformed: lin record"
    ELSE IF ~c.refPos THEN "inside: the reference run carries no field"
    ELSE IF PowerOfTwo(Abs(c.k)) /\ c.devPpt # 0 THEN "linear: scaling the amplitude by +-2^j must scale every field value exactly"
    ELSE IF c.devPpt > LinTolPpt THEN "linear: the field is not proportional to the amplitude factor (1e-9)"
    ELSE "ok"

Verdict(c) == CASE c.kind = "probe" -> ProbeVerdict(c)
                [] c.kind = "leak" -> LeakVerdict(c)
                [] c.kind = "lin" -> LinVerdict(c)
                [] OTHER -> "malformed: kind"
TInit == ci = 1 /\ TLCSet(1, << >>)
TNext == /\ ci <= Len(Cases)
         /\ LET c == Cases[ci] IN TLCSet(1, Append(TLCGet(1), [ id |-> c.id, v |-> Verdict(c) ]))
         /\ ci' = ci + 1
TSpec == TInit /\ [][TNext]_ci
Post == ndJsonSerialize(IOEnv.VERDICT_FILE, TLCGet(1))
=============================================================================
