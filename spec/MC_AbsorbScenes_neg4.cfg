SPECIFICATION Spec
CONSTANTS LossPerHit = 4  ChargeFree = TRUE  OpenFace = "none"  Transits = 4  StretchApplied = FALSE
INVARIANT DiffClause
INVARIANT QuietAbsorbed
CHECK_DEADLOCK FALSE
