SPECIFICATION Spec
CONSTANTS L = 3  Variant = "stable"
INVARIANT TypeOK
INVARIANT PainterRule
INVARIANT PrefixRule
INVARIANT VolumeFirst
INVARIANT TiersWidest
INVARIANT ScalarMu
PROPERTY OnlyUpwards
CHECK_DEADLOCK FALSE
