SPECIFICATION Spec
CONSTANTS
  Shapes <- Shapes2
  Tilings <- Tilings2
  MaxT = 1
  Variant = "ok"
  Dense = TRUE
  Basis = "origin"
  Singles = "none"
INVARIANT TypeOK
INVARIANT TileInv
INVARIANT BigIsQuasiPeriodic
CHECK_DEADLOCK FALSE
