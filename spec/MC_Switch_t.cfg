SPECIFICATION Spec
CONSTANTS MaxT = 6  EndRule = "inclusive"
  Times = {0, 2, 4, 6, 12, 20}  Durations = {0, 2, 4, 8}  HalfPeriods = {0, 1, 2, 3}  Periods = {4, 6}  Intervals = {1, 2, 3}
  FixedLists <- FL_t
INVARIANT RecordsAreActiveSteps
INVARIANT SlotIsRank
INVARIANT InjectOnlyWhenOn
INVARIANT WindowContiguous
INVARIANT EndStepInclusive
INVARIANT AlwaysOffIsOff
INVARIANT DefaultIsAlwaysOn
CHECK_DEADLOCK FALSE
