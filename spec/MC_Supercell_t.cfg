SPECIFICATION Spec
CONSTANTS
  Pairs <- PairsT
  MaxT = 3
  Variant = "ok"
  Dense = TRUE
  Basis = "auto"
  Singles = "first"
INVARIANT TypeOK
INVARIANT TileInv
INVARIANT BigIsQuasiPeriodic
CHECK_DEADLOCK FALSE
