SPECIFICATION Spec
CONSTANTS
  Shapes <- ShapesT
  Tilings <- TilingsT
  MaxT = 3
  Variant = "ok"
  Dense = TRUE
  Basis = "all"
  Singles = "all"
INVARIANT TypeOK
INVARIANT TileInv
INVARIANT BigIsQuasiPeriodic
CHECK_DEADLOCK FALSE
