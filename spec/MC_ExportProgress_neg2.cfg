SPECIFICATION Spec
CONSTANTS MaxStart = 10  MaxLen = 30  Variant = "no_close"
INVARIANT InRange
INVARIANT Monotone
INVARIANT CountIsSteps
INVARIANT AtMostTwenty
INVARIANT ClosedForm
INVARIANT FinalIsTotal
INVARIANT NiceMinimal
CHECK_DEADLOCK FALSE
