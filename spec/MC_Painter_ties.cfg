SPECIFICATION Spec
CONSTANTS L = 3  IsoTest = "full"  Variant = "stable"  NObj = 7  Family = "tiesq"
INVARIANT TypeOK
INVARIANT PainterRule
INVARIANT PrefixRule
INVARIANT VolumeFirst
INVARIANT TiersWidest
INVARIANT ScalarMu
PROPERTY OnlyUpwards
CHECK_DEADLOCK FALSE
