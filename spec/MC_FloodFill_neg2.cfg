SPECIFICATION Spec
CONSTANTS
  Shapes <- ShapesNeg2
  Modes = { "material" }
  Loop = "fixpoint"
  Seed = "padded"
  Filter <- AnyDesign
INVARIANT TypeOK
INVARIANT RankWitness
INVARIANT TerminalIsReach
INVARIANT RemoveCorrect
CHECK_DEADLOCK TRUE
