----------------------------- MODULE Heap -----------------------------
(* The functional setter of fdtdx configuration objects, TreeClass.aset(path, value)
   (fdtdx/core/jax/pytrees.py), as a state machine over an object graph with node identities.

   State: a heap of nodes (attribute objects, lists, dicts, leaves; HeapDefs.tla), and the sequence of roots
   the caller holds: roots[1] is the object built initially, every ASet appends the object it returned.
   One action per call:
       ASet(i, path, v)  ==  roots[i].aset(path, v)     -- walks the path top-down, then rebuilds bottom-up:
                                                           a list/dict step copies that container (shallow copy,
                                                           slot replaced), an attribute step copies the object.
   Mode selects the copy discipline of the bottom-up phase:
       "spine"        copy exactly the nodes on the path (path copying); everything else is shared.
       "obj_deep"     what the code does today: at an attribute step the object is rebuilt through pytreeclass
                      .at[...] which copies every container below it, so the siblings of the addressed attribute
                      are fresh copies too (leaves stay shared); list/dict steps are shallow copies.
       "nocopy_list"  NEGATIVE INSTANCE: a list step forgets `.copy()` and writes into the caller's list.
       "nocopy_attr"  NEGATIVE INSTANCE: an attribute step sets the attribute on the caller's object.
       "lookup_default" NEGATIVE INSTANCE: the top-down walk looks a missing final dict key up with
                      setdefault(key, None): the caller's dict gains a spurious `key: None` entry, the result is right.
   With CreateNew the call may also address a slot that does not exist yet (create_new_ok=True): a new attribute of an
   object or a new key of a dict, as the LAST step of the path (the API has no list append: an index must exist).
   Property C40 (all three clauses hold for both positive modes and for every earlier root as well):
       Persistent       no node reachable from any root the caller holds ever changes (same ids, same contents)
       OnlyPathChanged  the returned graph is the substitution old[path := v], nothing else differs
       SameType         every copied node keeps kind and type tag                                          *)
EXTENDS HeapDefs

CONSTANTS MaxDepth,     \* initial objects: every object whose tree has this depth or less (paths of <= MaxDepth steps)
          MaxUpdates,   \* length of the update sequence
          Mode,
          ShareSet,     \* subset of BOOLEAN: TRUE = equal subtrees of the initial object are ONE node (aliasing)
          NegIdx,       \* also address list items by negative index
          Rich,         \* larger alphabet of node shapes (second class, two-key dicts)
          CreateNew     \* also make calls with create_new_ok=True that create an attribute / a dict key

VARIABLES heap, roots, prev, last
vars == << heap, roots, prev, last >>

\* ---------- shapes of initial objects (uniform records; kids is a sequence of << label, shape >>) ----------
LeafS == Node("leaf", "int", 1, << >>)
RECURSIVE Shapes(_)
Shapes(d) ==
    IF d = 0 THEN { LeafS }
    ELSE LET S == Shapes(d - 1) IN
         { LeafS }
         \cup { Node("obj", "Outer", 0, << << Attr("a"), x >>, << Attr("b"), y >> >>) : x \in S, y \in S }
         \cup { Node("list", "list", 0, << << Idx(0), x >>, << Idx(1), y >> >>) : x \in S, y \in S }
         \cup { Node("dict", "dict", 0, << << Key("x"), x >> >>) : x \in S }
         \cup (IF Rich THEN { Node("obj", "Inner", 0, << << Attr("p"), x >> >>) : x \in S }
                            \cup { Node("dict", "dict", 0, << << Key("x"), x >>, << Key("y"), y >> >>) : x \in S, y \in S }
               ELSE {})

\* values written by an update: a fresh leaf, or a fresh container
NewValues == { Node("leaf", "int", 9, << >>), Node("list", "list", 0, << << Idx(0), Node("leaf", "int", 9, << >>) >> >>) }

\* Bind(x, Op) == Op(x) with x evaluated exactly once (TLC re-evaluates LET definitions at every use in some
\* evaluation modes, which is exponential for recursive results used several times)
Bind(x, Op(_)) == CHOOSE y \in { Op(r) : r \in { x } } : TRUE

\* ---------- allocation: Build(st, s, share) appends the nodes of shape s, children first ----------
\* st = [h |-> heap, memo |-> sequence of << shape, id >>]; with share, an equal shape is allocated once
RECURSIVE Build(_, _, _), BuildKids(_, _, _, _, _)
Build(st, s, share) ==
    LET hit == { j \in 1..Len(st.memo) : st.memo[j][1] = s }
    IN  IF share /\ hit # {}
        THEN [ h |-> st.h, memo |-> st.memo, id |-> st.memo[CHOOSE j \in hit : TRUE][2] ]
        ELSE Bind(BuildKids(st, s.kids, 1, << >>, share),
                  LAMBDA r : [ h |-> Append(r.h, Node(s.kind, s.tag, s.val, r.kids)),
                               memo |-> Append(r.memo, << s, Len(r.h) + 1 >>), id |-> Len(r.h) + 1 ])
BuildKids(st, ks, j, acc, share) ==
    IF j > Len(ks) THEN [ h |-> st.h, memo |-> st.memo, kids |-> acc ]
    ELSE Bind(Build(st, ks[j][2], share),
              LAMBDA r : BuildKids([ h |-> r.h, memo |-> r.memo ], ks, j + 1, Append(acc, << ks[j][1], r.id >>), share))

\* ---------- copies ----------
\* copy of every container below n (leaves are shared): << heap', id' >>
RECURSIVE DeepCopy(_, _), DeepKids(_, _, _, _)
DeepCopy(h, n) ==
    IF h[n].kind = "leaf" THEN << h, n >>
    ELSE Bind(DeepKids(h, h[n].kids, 1, << >>),
              LAMBDA r : << Append(r[1], [ h[n] EXCEPT !.kids = r[2] ]), Len(r[1]) + 1 >>)
DeepKids(h, ks, j, acc) ==
    IF j > Len(ks) THEN << h, acc >>
    ELSE Bind(DeepCopy(h, ks[j][2]), LAMBDA r : DeepKids(r[1], ks, j + 1, Append(acc, << ks[j][1], r[2] >>)))

\* like DeepKids, but the child at position skip is replaced by id v instead of being copied
RECURSIVE SiblingCopies(_, _, _, _, _, _)
SiblingCopies(h, ks, j, acc, skip, v) ==
    IF j > Len(ks) THEN << h, acc >>
    ELSE IF j = skip THEN SiblingCopies(h, ks, j + 1, Append(acc, << ks[j][1], v >>), skip, v)
    ELSE Bind(DeepCopy(h, ks[j][2]),
              LAMBDA r : SiblingCopies(r[1], ks, j + 1, Append(acc, << ks[j][1], r[2] >>), skip, v))

\* the bottom-up phase of aset below node n: << heap', id of the node standing for n in the result >>
\* (r = result for the child: << heap with the lower spine rebuilt, id standing for the child >>)
RECURSIVE Rebuild(_, _, _, _)
Rebuild(h, n, path, v) ==
    IF path = << >> THEN << h, v >>
    ELSE LET lab  == Canon(h[n], Head(path))
             j    == Pos(h[n], lab)
             inPlace == \/ Mode = "nocopy_list" /\ lab[1] = "idx"
                        \/ Mode = "nocopy_attr" /\ lab[1] = "attr"
         IN  IF j = 0
             \* the slot does not exist yet (create_new_ok; only ever the last step of the path)
             THEN IF Mode = "lookup_default" /\ lab[1] = "key"
                  \* the walk has inserted `key: None` into the CALLER's dict; from here on the key exists
                  THEN LET hN == Append(h, Node("leaf", "NoneType", 0, << >>))
                           hM == [ hN EXCEPT ![n].kids = Append(@, << lab, Len(hN) >>) ]
                       IN  Rebuild(hM, n, path, v)
                  ELSE IF Mode = "obj_deep" /\ lab[1] = "attr"
                  THEN Bind(SiblingCopies(h, h[n].kids, 1, << >>, 0, v),
                            LAMBDA s : << Append(s[1], [ h[n] EXCEPT !.kids = Append(s[2], << lab, v >>) ]), Len(s[1]) + 1 >>)
                  ELSE << Append(h, [ h[n] EXCEPT !.kids = Append(@, << lab, v >>) ]), Len(h) + 1 >>   \* fresh copy + new slot
             ELSE
             Bind(Rebuild(h, h[n].kids[j][2], Tail(path), v), LAMBDA r :
               IF inPlace
               THEN << [ r[1] EXCEPT ![n].kids[j] = << lab, r[2] >> ], n >>                \* writes into the caller's node
               ELSE IF Mode = "obj_deep" /\ lab[1] = "attr"
               THEN Bind(SiblingCopies(r[1], h[n].kids, 1, << >>, j, r[2]),
                         LAMBDA s : << Append(s[1], [ h[n] EXCEPT !.kids = s[2] ]), Len(s[1]) + 1 >>)
               ELSE << Append(r[1], [ h[n] EXCEPT !.kids[j] = << lab, r[2] >> ]), Len(r[1]) + 1 >>)  \* fresh copy, one slot replaced

\* ---------- state machine ----------
NoUpdate == [ old |-> 0, new |-> 0, path |-> << >>, v |-> 0 ]

\* the receiver of aset is always an object (lists, dicts and leaves have no aset)
RootShapes == { s \in Shapes(MaxDepth) : s.kind = "obj" }
Init == \E s \in RootShapes, sh \in ShareSet :
           \E b \in { Build([ h |-> << >>, memo |-> << >> ], s, sh) } :
               /\ heap = b.h /\ roots = << b.id >> /\ prev = b.h /\ last = NoUpdate

RawPaths(h, r) == LET P == PathsFrom(h, r)
                  IN  IF NegIdx THEN P \cup { NegPath(h, r, p) : p \in P } ELSE P

\* paths that end in a slot which does not exist yet: a new attribute of any object / a new key of any dict on the way
NewSlotPaths(h, r) ==
    LET Holders == { << >> } \cup PathsFrom(h, r)
        Fresh(p) == LET k == h[NodeAt(h, r, p)].kind
                    IN  IF k = "obj" THEN { p \o << Attr("_new") >> } ELSE IF k = "dict" THEN { p \o << Key("new") >> } ELSE {}
    IN  UNION { Fresh(p) : p \in Holders }
CallPaths(h, r) == RawPaths(h, r) \cup (IF CreateNew THEN NewSlotPaths(h, r) ELSE {})

ASet(i, path, vs) ==
    LET old == roots[i] IN
    \* compared with TRUE so that TLC evaluates the guard as a value: it would otherwise branch on the disjunction inside
    \* ValidPathNew and generate every successor for an existing slot twice
    /\ (IF CreateNew THEN ValidPathNew(heap, old, path) ELSE ValidPath(heap, old, path)) = TRUE
    /\ \E b \in { Build([ h |-> heap, memo |-> << >> ], vs, FALSE) } :
       \E r \in { Rebuild(b.h, old, path, b.id) } :
        /\ prev' = b.h
        /\ heap' = r[1]
        /\ roots' = Append(roots, r[2])
        /\ last' = [ old |-> old, new |-> r[2], path |-> path, v |-> b.id ]

Next == /\ Len(roots) <= MaxUpdates
        /\ \E i \in 1..Len(roots) : \E path \in CallPaths(heap, roots[i]) : \E vs \in NewValues : ASet(i, path, vs)
Spec == Init /\ [][Next]_vars

\* ---------- properties ----------
\* the last call created a slot (its path was not valid in the heap it was made on)
LastCreated == last # NoUpdate /\ ~ValidPath(prev, last.old, last.path)

TypeOK == /\ \A n \in 1..Len(heap) : heap[n].kind \in {"obj", "list", "dict", "leaf"} /\ KidIds(heap[n]) \subseteq 1..Len(heap)
          /\ \A i \in 1..Len(roots) : roots[i] \in 1..Len(heap)
          /\ Len(prev) <= Len(heap)
\* allocation discipline of the positive modes: children are allocated before their parents (hence acyclic)
ChildrenOlder == \A n \in 1..Len(heap) : KidIds(heap[n]) \subseteq 1..(n - 1)

\* C40, clause "leaves the original object unchanged" (for the object just updated and every root held before)
Persistent == last # NoUpdate =>
                 \A i \in 1..(Len(roots) - 1) : OrigUnchanged(prev, heap, roots[i])
\* C40, clause "only the addressed path changed"
PathOnly == last # NoUpdate => OnlyPathChanged(prev, heap, last.old, last.new, last.path, last.v)
\* C40, clause "returns an object of the same type"
TypeKept == last # NoUpdate => SameType(prev, heap, last.old, last.new, last.path)
\* the value handed in is used as it is and not modified either
ValueUntouched == last # NoUpdate => OrigUnchanged(prev, heap, last.v)
\* a call that creates a slot really adds it: the addressed path exists in the result
NewSlotAdded == LastCreated => ValidPath(heap, last.new, CanonPath(prev, last.old, last.path))
\* the result is a new object (never the caller's), and in the path-copying mode exactly the spine is fresh
ResultFresh == last # NoUpdate => last.new > Len(prev)
SpineOnly == (last # NoUpdate /\ Mode = "spine") => Len(heap) = Len(prev) + Len(last.path)
\* model discipline of the positive modes: the heap is append-only
AppendOnly == [][ \A n \in 1..Len(heap) : heap'[n] = heap[n] ]_vars
=======================================================================
