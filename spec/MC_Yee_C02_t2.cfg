SPECIFICATION Spec
CONSTANTS Mode = "reverse"  Variant = "ok"  Family = "mixed"  List = { }  Steps = 3  PairMod = 1
          Extra = { 1103, 1011, 1 }
INVARIANT TypeOK
INVARIANT WallsHold
INVARIANT ReverseExact
CHECK_DEADLOCK FALSE
