-------------------------- MODULE Trace_Brush --------------------------
(* Validates what the REAL BrushConstraint2D.__call__ (discretization.py on /repo/src) returned, against
   the definitions of BrushDefs.tla that Brush.tla model-checks.

   A case is one call:
      dm     [X, Y]                 grid (sides 1..48)
      brush  [[dx, dy], ...]        offsets of the True entries of the brush array the transform was
                                    given (circular_brush(d) of the implementation), relative to its centre
      bg     0 | 1                  index of the background (void) material
      arr    flat row-major integer design values handed to the transform
      out    flat row-major values it returned (rounded; dev = deviation from integers in ppb)
   returned = 1: the call came back (the observation of termination); returned = 0: the harness's watchdog
   gave up on it (a batch of designs or one eager call) - the property's first clause is violated.
   Verdict = the property's predicate:  out is binary, solid = {out # bg} and void are both unions of
   brush footprints whose in-domain part lies inside the region (BrushFeasible).
   More detailed than the property, hence only "drift:" when it fails: brush centres inside the grid, and
   equality with the terminal state of the touch loop of Brush.tla (rewards = arr, negated when bg = 1). *)
EXTENDS Integers, Sequences, FiniteSets, TLC, TLCExt, Json, IOUtils

D == INSTANCE BrushDefs

Cases == JsonDeserialize(IOEnv.TRACE_FILE)
VARIABLES ci

WellFormed(c) ==
    /\ c.bg \in {0, 1} /\ Len(c.dm) = 2 /\ c.dm[1] \in 1..48 /\ c.dm[2] \in 1..48
    /\ Len(c.arr) = c.dm[1] * c.dm[2] /\ Len(c.out) = c.dm[1] * c.dm[2]
    /\ Len(c.brush) >= 1 /\ \A i \in 1..Len(c.brush) : c.brush[i][1] \in -4..4 /\ c.brush[i][2] \in -4..4

Verdict(c) ==
    IF c.returned = 0 THEN "termination: the brush loop did not terminate (the call did not return within the watchdog limit)"
    ELSE IF ~WellFormed(c) THEN "malformed: record shape"
    ELSE LET dm    == << c.dm[1], c.dm[2] >>
             G     == D!Grid(dm)
             B     == { 64 * c.brush[i][1] + c.brush[i][2] : i \in 1..Len(c.brush) }
             out   == c.out
             bg    == c.bg
             Solid == { p \in G : out[D!Pos(p, dm)] # bg }
             rew   == IF bg = 0 THEN c.arr ELSE [ i \in 1..Len(c.arr) |-> 0 - c.arr[i] ]
         IN  IF c.dev # 0 \/ \E i \in 1..Len(out) : out[i] \notin {0, 1} THEN "output: not binary"
             ELSE IF ~D!CoveredBy(Solid, G, B) THEN "solid: some solid pixel lies in no brush footprint contained in the solid region"
             ELSE IF ~D!CoveredBy(G \ Solid, G, B) THEN "void: some void pixel lies in no brush footprint contained in the void region"
             ELSE IF ~D!BrushFeasibleCentred(Solid, G, B) THEN "drift: feasible only with brush centres outside the grid"
             ELSE IF c.model = 1 /\ D!GeneratorOutput(rew, dm, B) # Solid THEN "drift: differs from the touch loop of Brush.tla"
             ELSE "ok"

TInit == ci = 1 /\ TLCSet(1, << >>)
TNext == /\ ci <= Len(Cases)
         /\ LET c == Cases[ci] IN TLCSet(1, Append(TLCGet(1), [ id |-> c.id, v |-> Verdict(c) ]))
         /\ ci' = ci + 1
TSpec == TInit /\ [][TNext]_ci

Post == ndJsonSerialize(IOEnv.VERDICT_FILE, TLCGet(1))
=======================================================================
