------------------------- MODULE RecorderDefs -------------------------
(* Pure definitions of the recording rule, shared by Recorder.tla (state machine) and Trace_Recorder.tla *)
EXTENDS Integers, Sequences, FiniteSets, TLC

\* ---------- documented rule (pure definitions, shared with the trace spec) ----------
SaveSteps(T, K, S) == { t \in S..(T-1) : (t - S) % K = 0 } \cup { T - 1 }
IsSaved(T, K, S, t) == t \in SaveSteps(T, K, S)
\* slot of a saved step = number of saved steps strictly before it (0-based, chronological)
Idx(T, K, S, t)     == Cardinality({ s \in SaveSteps(T, K, S) : s < t })
ArraySize(T, K, S)  == Cardinality(SaveSteps(T, K, S))
SlotOf(T, K, S, t)  == IF IsSaved(T, K, S, t) THEN Idx(T, K, S, t) ELSE -1
Max(S) == CHOOSE x \in S : \A y \in S : y <= x
Min(S) == CHOOSE x \in S : \A y \in S : x <= y
PrevSave(T, K, S, t) == Max({ s \in SaveSteps(T, K, S) : s <= t })
NextSave(T, K, S, t) == Min({ s \in SaveSteps(T, K, S) : s > t })

\* exact linear interpolation between (p, vp) and (n, vn) at t, as <<num, den>> with den = n - p
Interp(p, vp, n, vn, t) == << vp * (n - p) + (t - p) * (vn - vp), n - p >>

\* Expected(h, ...) is the property's right-hand side, stated on the value history h alone
Expected(h, T, K, S, t) ==
    IF IsSaved(T, K, S, t) THEN << h[t], 1 >>
    ELSE LET p == PrevSave(T, K, S, t)  n == NextSave(T, K, S, t)
         IN  Interp(p, h[p], n, h[n], t)

\* what the pipeline returns from its latent store (slot-indexed)
\* PrevLookup selects how the enclosing save times are recovered from a slot number:
\*   "save_list"        : the list of save steps, indexed by slot          (the design)
\*   "first_occurrence" : first time index whose filled time->slot map equals the slot (what
\*                        time_filter.py did before the fix: wrong for slot 0 when Start > 0)
FilledMap(T, K, S, t) == IF t < S THEN 0 ELSE Idx(T, K, S, PrevSave(T, K, S, t))
SlotTime(T, K, S, a, lookup) ==
    IF lookup = "save_list" THEN CHOOSE s \in SaveSteps(T, K, S) : Idx(T, K, S, s) = a
    ELSE Min({ u \in 0..(T-1) : FilledMap(T, K, S, u) = a })
DecompressFrom(store, T, K, S, t, lookup) ==
    IF IsSaved(T, K, S, t) THEN << store[Idx(T, K, S, t)], 1 >>
    ELSE LET a == FilledMap(T, K, S, t)
             p == SlotTime(T, K, S, a, lookup)
             n == SlotTime(T, K, S, a + 1, lookup)
         IN  Interp(p, store[a], n, store[a + 1], t)

RatEq(x, y) == x[1] * y[2] = y[1] * x[2]

=======================================================================
