------------------------ MODULE Trace_Colocate ------------------------
(* Validates what REAL FieldDetectors of /repo/src recorded (fdtdx.fdtd.forward.forward with record_detectors=True,
   or fdtdx.fdtd.update.update_detector_states called directly) against the definitional formula of
   ColocateDefs.tla - the one Colocate.tla model-checks against the two code paths.

   One record = one placed scene, a few time steps ("frames") and a batch of detectors:
     N          shape of the (symmetry-reduced) domain            W   integer cell widths per axis
     lo, hi     halo kind per axis the property demands for the scene's boundaries / symmetry planes:
                lo \in {"zero","wrap","mirror"}, hi \in {"zero","wrap"}  (derived from the scene's inputs by the harness)
     fs         the field arrays are fs * value (integers);   rs : stored records are rs * fs * value (integers)
     frames     [ {E, Hp, H} ]  E, H after step t, Hp = H before step t;  arrays [3][nx][ny][nz]
     dets       [ {s, e (region, 0-based, e exclusive), exact, on (per frame: detector active), rec} ]
                rec[k][m][i][j][k'] = stored slot k (k-th active frame), component m (Ex,Ey,Ez,Hx,Hy,Hz), region cell
     raised     the real code raised an exception while recording (err = message)
     dev, tol   largest deviation of a scaled observation from an integer and what is tolerated (ppb of one unit)
   Verdict = first failing clause of property C15, or "ok".                                              *)
EXTENDS Integers, Sequences, FiniteSets, TLC, TLCExt, Json, IOUtils

D == INSTANCE ColocateDefs

Cases == JsonDeserialize(IOEnv.TRACE_FILE)
VARIABLES ci
tvars == << ci >>

Get3(A, c, p) == A[c + 1][p[1] + 1][p[2] + 1][p[3] + 1]
Dims3(A) == << Len(A), Len(A[1]), Len(A[1][1]) >>
IsArr(A, n) == Len(A) = 3 /\ \A c \in 1..3 : Dims3(A[c]) = n
ShapeOf(d) == << d.e[1] - d.s[1], d.e[2] - d.s[2], d.e[3] - d.s[3] >>
NumOn(d) == Cardinality({ t \in 1..Len(d.on) : d.on[t] })
\* slot of frame t = number of active frames up to and including t
SlotOf(d, t) == Cardinality({ u \in 1..t : d.on[u] })

WellFormed(c) ==
    /\ Len(c.N) = 3 /\ Len(c.W) = 3 /\ Len(c.lo) = 3 /\ Len(c.hi) = 3
    /\ \A a \in 1..3 : /\ c.N[a] >= 1 /\ Len(c.W[a]) = c.N[a] /\ \A i \in 1..c.N[a] : c.W[a][i] >= 1
                       /\ c.lo[a] \in {"zero", "wrap", "mirror"} /\ c.hi[a] \in {"zero", "wrap"}
                       /\ (c.lo[a] = "mirror" => c.N[a] >= 2)
    /\ c.fs >= 1 /\ c.rs >= 1
    /\ c.raised \/
       ( /\ Len(c.frames) >= 1
         /\ \A t \in 1..Len(c.frames) : IsArr(c.frames[t].E, c.N) /\ IsArr(c.frames[t].Hp, c.N) /\ IsArr(c.frames[t].H, c.N)
         /\ \A k \in 1..Len(c.dets) :
               LET d == c.dets[k] IN
               /\ \A a \in 1..3 : 0 <= d.s[a] /\ d.s[a] < d.e[a] /\ d.e[a] <= c.N[a]
               /\ Len(d.on) = Len(c.frames) )

\* the detector state has one slot per active step, six components, the shape of the region
SlotsOK(d) == /\ Len(d.rec) = NumOn(d)
              /\ \A k \in 1..Len(d.rec) : Len(d.rec[k]) = 6 /\ \A m \in 1..6 : Dims3(d.rec[k][m]) = ShapeOf(d)

\* the definitional formula on the whole domain of frame f, evaluated once per frame: [m][cell] -> << num, den >>
WantAll(c, f) ==
    TLCEval([ m \in 1..6 |-> TLCEval([ q \in D!Cells(c.N) |->
        D!ExactVal(LAMBDA cc, p : Get3(f.E, cc, p), LAMBDA cc, p : Get3(f.Hp, cc, p), LAMBDA cc, p : Get3(f.H, cc, p),
                   c.N, c.W, c.lo, c.hi, m, q) ]) ])

\* stored integer x = rs * fs * value, formula gives fs * value = num / den
Matches(c, x, v) == x * v[2] = c.rs * v[1]

DetOK(c, d, t, want) ==
    LET slot == d.rec[SlotOf(d, t)]  f == c.frames[t] IN
    \A m \in 1..6, r \in D!Cells(ShapeOf(d)) :
        LET q == << d.s[1] + r[1], d.s[2] + r[2], d.s[3] + r[3] >>
            x == slot[m][r[1] + 1][r[2] + 1][r[3] + 1]
        IN  IF d.exact THEN Matches(c, x, want[m][q])
            ELSE Matches(c, x, D!RawVal(LAMBDA cc, p : Get3(f.E, cc, p), LAMBDA cc, p : Get3(f.H, cc, p), m, q))

\* first failing (frame, detector), as a string; "" if none
BoxStr(d) == ToString(d.s) \o ".." \o ToString(d.e)
RECURSIVE FirstBad(_, _, _, _)
FirstBad(c, t, k, want) ==
    IF t > Len(c.frames) THEN ""
    ELSE IF k > Len(c.dets) THEN FirstBad(c, t + 1, 1, IF t + 1 <= Len(c.frames) THEN WantAll(c, c.frames[t + 1]) ELSE << >>)
    ELSE IF c.dets[k].on[t] /\ ~DetOK(c, c.dets[k], t, want)
         THEN (IF c.dets[k].exact THEN "formula: record of an exact detector differs from the co-location formula on the padded domain restricted to its region"
               ELSE "raw: record of a detector without interpolation differs from the raw components of its region")
              \o (IF D!Interior(c.N, c.dets[k].s, c.dets[k].e) THEN " [interior box " ELSE " [edge box ") \o BoxStr(c.dets[k]) \o ", step " \o ToString(t - 1) \o "]"
    ELSE FirstBad(c, t, k + 1, want)

Verdict(c) ==
    IF ~WellFormed(c) THEN "malformed: record shape"
    ELSE IF c.raised THEN "raised: recording raised an exception on a legal scene"
    ELSE IF c.dev > c.tol THEN "exact: an observed value is not the exact rational the formula yields on integer inputs"
    ELSE IF \E k \in 1..Len(c.dets) : ~SlotsOK(c.dets[k]) THEN "slots: detector state does not hold one region-shaped record per active step"
    ELSE LET bad == FirstBad(c, 1, 1, WantAll(c, c.frames[1])) IN IF bad = "" THEN "ok" ELSE bad

TInit == ci = 1 /\ TLCSet(1, << >>)
TNext == /\ ci <= Len(Cases)
         /\ LET c == Cases[ci] IN TLCSet(1, Append(TLCGet(1), [ id |-> c.id, v |-> Verdict(c) ]))
         /\ ci' = ci + 1
TSpec == TInit /\ [][TNext]_tvars
Post == ndJsonSerialize(IOEnv.VERDICT_FILE, TLCGet(1))
=======================================================================
