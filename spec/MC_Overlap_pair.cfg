SPECIFICATION Spec
CONSTANTS N = 7  Rule = "closed_all_axes"  Scene = "pair"
INVARIANT TypeOK
INVARIANT StateIsFresh
INVARIANT AllValid
INVARIANT AppliedOnce
PROPERTY NoApplyDuringParams
CHECK_DEADLOCK FALSE
