SPECIFICATION Spec
CONSTANTS N = 7  SnapWhen = "after_devices"  NCalls = 2  Rule = "closed_all_axes"  Scene = "pair"
INVARIANT TypeOK
INVARIANT StateIsFresh
INVARIANT AllValid
INVARIANT AppliedOnce
INVARIANT HistoryComplete
PROPERTY NoApplyDuringParams
CHECK_DEADLOCK FALSE
