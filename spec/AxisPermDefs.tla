--------------------------- MODULE AxisPermDefs ---------------------------
(* Pure definitions for C08: the cyclic relabelling of the axes  x -> y -> z -> x  as index maps, and a lattice
   Yee step written the way the implementation writes it: with one explicit formula per axis / component
   (core/physics/curl.py: curl_x = dyFz - dzFy, curl_y = dzFx - dxFz, curl_z = dxFy - dyFx; the absorbing-layer
   loop with its per-axis branch  a=0 -> (dxFz, dxFy), a=1 -> (dyFx, dyFz), a=2 -> (dzFy, dzFx);
   objects/boundaries/pec.py tangential_components per axis; core/misc.py pad_fields per axis).
   Equivariance is therefore not true by construction: it is the invariant TLC checks (AxisPerm.tla), and the
   negative instances break exactly one per-axis branch.

   Lattice layout and helpers (Lin, Coord, Comp, At, Stride, Cells, Size) come from SupercellDefs.
   Values are plain integers here (no phases).                                                           *)
EXTENDS SupercellDefs

\* ---------- the relabelling  pi: axis a -> (a+1) mod 3  (0-based axes / components) ----------
Pi(a) == (a + 1) % 3
\* shape: the new axis pi(a) has the extent of the old axis a  =>  <<n_z, n_x, n_y>>
PermShape(N) == << N[3], N[1], N[2] >>
\* cell (x, y, z) -> (z, x, y); component p -> pi(p)
PermIdx(i, N) == Lin(Pi(Comp(i, N)), Coord(i, N, 3), Coord(i, N, 1), Coord(i, N, 2), PermShape(N))
\* per-axis attribute vectors (1-based tuples indexed by axis+1): new[pi(a)] = old[a]
PermVec(v) == << v[3], v[1], v[2] >>
\* the same for arrays with one leading entry per cell only (scalar per cell)
PermCell(x, y, z) == << z, x, y >>
\* relabelled field / coefficient array
PermField(F, N) == [ k \in 1..Size(N) |-> F[CHOOSE i \in 1..Size(N) : PermIdx(i, N) = k] ]
PermRel(F2, F1, N) == \A i \in 1..Size(N) : F2[PermIdx(i, N)] = F1[i]

\* ---------- lattice step with per-axis boundary kinds ----------
\* bk[a+1] in {"wrap", "open", "pec-", "pec+", "pec2"}: wrap padding; zero padding; zero padding + PEC wall layer
\* on the min / max / both faces.  lay: face -> kappa (Faces below; 0 = no layer): a one-cell absorbing layer on that face
\* whose correction is kappa * derivative (memoryless stand-in for step_cpml, same index plumbing).
Ghost(F, i, a, d, N, bk) ==       \* entry one cell away along axis a (1..3), integer-valued fields
    LET q == Coord(i, N, a) + d
    IN  IF q >= 0 /\ q < N[a] THEN F[i + d * Stride(N, a)]
        ELSE IF bk[a] = "wrap" THEN F[i - d * (N[a] - 1) * Stride(N, a)]
        ELSE 0
DF(F, i, p, a, N, bk) == Ghost(F, At(i, p, N), a + 1,  1, N, bk) - F[At(i, p, N)]     \* forward  d_a F_p
DB(F, i, p, a, N, bk) == F[At(i, p, N)] - Ghost(F, At(i, p, N), a + 1, -1, N, bk)     \* backward d_a F_p

\* faces <<axis 0..2, side>>; pi acts on faces through their axis: min_x -> min_y -> min_z -> min_x (same for max)
Faces == { << a, sd >> : a \in 0..2, sd \in {"-", "+"} }
NoLayers == [ f \in Faces |-> 0 ]
PermFace(f) == << Pi(f[1]), f[2] >>
\* per-face parameter table of the relabelled scene: new[pi(f)] = old[f]
PermFaceFn(L) == [ f \in Faces |-> L[<< (f[1] + 2) % 3, f[2] >>] ]
InFace(i, N, f) == IF f[2] = "-" THEN Coord(i, N, f[1] + 1) = 0 ELSE Coord(i, N, f[1] + 1) = N[f[1] + 1] - 1
\* the parameter the implementation looks up for face f (BoundaryConfig.get_*_dict: one explicit entry per face);
\* variant "face_table": the min_y entry reads the min_x field
KappaOf(L, f, variant) == IF variant = "face_table" /\ f = << 1, "-" >> THEN L[<< 0, "-" >>] ELSE L[f]
\* the per-axis branch of the layer loop: which derivative pair <<d_a F_j, d_a F_i>> is used for layer axis a.
\* variant "pml_branch": the a = 1 branch returns the pair in the wrong order
LayerPair(a, variant) ==       \* as <<component of d_field_1, component of d_field_2>>, both derivatives along a
    IF a = 0 THEN << 2, 1 >>
    ELSE IF a = 1 THEN (IF variant = "pml_branch" THEN << 2, 0 >> ELSE << 0, 2 >>)
    ELSE << 1, 0 >>

\* curl with explicit per-component formulas; fwd = TRUE for curl_E (forward differences)
Dd(F, i, p, a, N, bk, fwd) == IF fwd THEN DF(F, i, p, a, N, bk) ELSE DB(F, i, p, a, N, bk)
CurlPlain(F, i, N, bk, fwd, variant) ==
    LET p == Comp(i, N)
    IN  IF p = 0 THEN Dd(F, i, 2, 1, N, bk, fwd) - Dd(F, i, 1, 2, N, bk, fwd)          \* dyFz - dzFy
        ELSE IF p = 1 THEN
             (IF variant = "curl_y" THEN Dd(F, i, 2, 0, N, bk, fwd) - Dd(F, i, 0, 2, N, bk, fwd)
              ELSE Dd(F, i, 0, 2, N, bk, fwd) - Dd(F, i, 2, 0, N, bk, fwd))             \* dzFx - dxFz
        ELSE Dd(F, i, 1, 0, N, bk, fwd) - Dd(F, i, 0, 1, N, bk, fwd)                    \* dxFy - dyFx
FaceCorr(F, i, N, bk, kap, a, fwd, variant) ==
    LET pr == LayerPair(a, variant)
        p  == Comp(i, N)
    IN  IF p = (a + 1) % 3 THEN -(kap * Dd(F, i, pr[1], a, N, bk, fwd))        \* curl[i] -= corr_1
        ELSE IF p = (a + 2) % 3 THEN kap * Dd(F, i, pr[2], a, N, bk, fwd)      \* curl[j] += corr_2
        ELSE 0
FaceTerm(F, i, N, bk, lay, f, fwd, variant) ==
    IF InFace(i, N, f) /\ KappaOf(lay, f, variant) # 0 THEN FaceCorr(F, i, N, bk, KappaOf(lay, f, variant), f[1], fwd, variant) ELSE 0
\* the loop over the absorbing-layer objects: one term per face
LayerCorr(F, i, N, bk, lay, fwd, variant) ==
    FaceTerm(F, i, N, bk, lay, << 0, "-" >>, fwd, variant) + FaceTerm(F, i, N, bk, lay, << 0, "+" >>, fwd, variant)
  + FaceTerm(F, i, N, bk, lay, << 1, "-" >>, fwd, variant) + FaceTerm(F, i, N, bk, lay, << 1, "+" >>, fwd, variant)
  + FaceTerm(F, i, N, bk, lay, << 2, "-" >>, fwd, variant) + FaceTerm(F, i, N, bk, lay, << 2, "+" >>, fwd, variant)
Curl(F, i, N, bk, lay, fwd, variant) == CurlPlain(F, i, N, bk, fwd, variant) + LayerCorr(F, i, N, bk, lay, fwd, variant)

\* PEC wall layer: tangential E components are zeroed after the E update (explicit per-axis table of pec.py;
\* variant "pec_table": the y-face entry lists the wrong pair)
Tangential(a, variant) == IF a = 0 THEN {1, 2} ELSE IF a = 1 THEN (IF variant = "pec_table" THEN {0, 1} ELSE {0, 2}) ELSE {0, 1}
OnWall(i, N, bk) ==
    \E a \in 0..2 : \/ (bk[a + 1] \in {"pec-", "pec2"} /\ Coord(i, N, a + 1) = 0)
                    \/ (bk[a + 1] \in {"pec+", "pec2"} /\ Coord(i, N, a + 1) = N[a + 1] - 1)
Zeroed(i, N, bk, variant) ==
    \E a \in 0..2 : /\ \/ (bk[a + 1] \in {"pec-", "pec2"} /\ Coord(i, N, a + 1) = 0)
                       \/ (bk[a + 1] \in {"pec+", "pec2"} /\ Coord(i, N, a + 1) = N[a + 1] - 1)
                    /\ Comp(i, N) \in Tangential(a, variant)

\* one half step each; src = index of the entry a soft unit source adds to after the E update (0 = none)
YeeE(E, H, mat, N, bk, lay, src, variant) ==
    [ i \in 1..Size(N) |->
        IF Zeroed(i, N, bk, variant) THEN 0
        ELSE E[i] + mat[i] * Curl(H, i, N, bk, lay, FALSE, variant) + (IF i = src THEN 1 ELSE 0) ]
YeeH(E, H, N, bk, lay, variant) ==
    [ i \in 1..Size(N) |-> H[i] - Curl(E, i, N, bk, lay, TRUE, variant) ]

\* ---------- full 3x3 tensors (9 components, row-major: k = 3*row + col; arrays of layout (9, nx, ny, nz)) ----------
\* pi acts on BOTH indices: T2[pi(r), pi(c)] = T1[r, c].
\* variant "tensor_diag_only": only the diagonal entries are relabelled, the off-diagonal ones keep their slot
TIdx(r, c) == 3 * r + c
PiT(k, variant) == IF variant = "tensor_diag_only" /\ (k \div 3) # (k % 3) THEN k ELSE TIdx(Pi(k \div 3), Pi(k % 3))
PiInv(a) == (a + 2) % 3
PiTInv(k, variant) == IF variant = "tensor_diag_only" /\ (k \div 3) # (k % 3) THEN k ELSE TIdx(PiInv(k \div 3), PiInv(k % 3))
Size9(N) == 9 * Cells(N)
PermIdx9(i, N, variant) == Lin(PiT((i - 1) \div Cells(N), variant), Coord(i, N, 3), Coord(i, N, 1), Coord(i, N, 2), PermShape(N))
\* relabelled tensor array, written with the inverse map: entry (k', x', y', z') of the relabelled scene comes from
\* (piT^-1(k'), y', z', x') of the original one (N2 = PermShape(N))
PermTensor(T, N, variant) ==
    LET N2 == PermShape(N)
    IN  [ j \in 1..Size9(N) |-> T[Lin(PiTInv((j - 1) \div Cells(N), variant), Coord(j, N2, 2), Coord(j, N2, 3), Coord(j, N2, 1), N)] ]
PermRel9(T2, T1, N) == \A i \in 1..Size9(N) : T2[PermIdx9(i, N, "ok")] = T1[i]

\* full-tensor E update (fdtd/update.py, full anisotropic branch, lossless: A = identity):
\*   E_r += B[r,r] * K_r + sum_{c # r} B[r,c] * avg(K_c at the location of E_r),   K = curl H,
\* avg = avg_anisotropic_E_component(K_pad, component = c, location = r): mean of the four samples
\*   cell, cell + e_r, cell - e_c, cell + e_r - e_c   of the boundary-padded curl.
\* The model keeps integers: G[r,c] stands for B[r,c] (diagonal) resp. B[r,c]/4 (off-diagonal) and Sum4 is 4*avg.
\* variant "avg_location": the average of K_z for the E_y row is taken at the location of E_x (wrong `location`)
Nb(i, a, d, N, bk) ==      \* index one cell away along axis a (1..3) under the padding rule; 0 = zero padding
    IF i = 0 THEN 0
    ELSE LET q == Coord(i, N, a) + d
         IN  IF q >= 0 /\ q < N[a] THEN i + d * Stride(N, a)
             ELSE IF bk[a] = "wrap" THEN i - d * (N[a] - 1) * Stride(N, a) ELSE 0
KAt(H, j, N, bk, lay, variant) == IF j = 0 THEN 0 ELSE Curl(H, j, N, bk, lay, FALSE, variant)
Sum4(H, i, c, N, bk, lay, variant) ==
    LET r  == Comp(i, N)
        lo == IF variant = "avg_location" /\ r = 1 /\ c = 2 THEN 0 ELSE r
        j0 == At(i, c, N)
        j1 == Nb(j0, lo + 1, 1, N, bk)
        j2 == Nb(j0, c + 1, -1, N, bk)
        j3 == Nb(j1, c + 1, -1, N, bk)
    IN  KAt(H, j0, N, bk, lay, variant) + KAt(H, j1, N, bk, lay, variant)
          + KAt(H, j2, N, bk, lay, variant) + KAt(H, j3, N, bk, lay, variant)
GAt(G, i, c, N) == G[Lin(TIdx(Comp(i, N), c), Coord(i, N, 1), Coord(i, N, 2), Coord(i, N, 3), N)]
YeeEFull(E, H, G, N, bk, lay, src, variant) ==
    [ i \in 1..Size(N) |->
        IF Zeroed(i, N, bk, variant) THEN 0
        ELSE LET r == Comp(i, N)
             IN  E[i] + GAt(G, i, r, N) * Curl(H, i, N, bk, lay, FALSE, variant)
                      + GAt(G, i, (r + 1) % 3, N) * Sum4(H, i, (r + 1) % 3, N, bk, lay, variant)
                      + GAt(G, i, (r + 2) % 3, N) * Sum4(H, i, (r + 2) % 3, N, bk, lay, variant)
                      + (IF i = src THEN 1 ELSE 0) ]
=============================================================================
