SPECIFICATION Spec
CONSTANTS MaxT = 3  MaxStride = 2  Variant = "stride_on_all_steps"
INVARIANT TypeOK
INVARIANT AccIsDFT
INVARIANT KeptShape
INVARIANT Reconstructs
CHECK_DEADLOCK FALSE
