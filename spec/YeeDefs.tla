------------------------------ MODULE YeeDefs ------------------------------
(* Pure definitions of ONE Yee time step of fdtdx in EXACT INTEGER arithmetic, shared by Yee.tla (state machine,
   model-checked) and Trace_Yee.tla (validation of numbers observed from the real code).

   Code anchors:  fdtd/update.py  update_E / update_H / update_E_reverse / update_H_reverse,
                  pad_fields_for_boundaries (zero halo | wrap | Bloch phase on the ghost cells),
                  core/physics/curl.py  curl_H (backward differences) / curl_E (forward differences), _metric_scale,
                  objects/boundaries/pec.py, pmc.py (tangential projection on the one-cell face layer),
                  objects/sources/dipole.py (soft additive injection  -c * inv * amp * profile(time argument)).

   Lattice.  A field is a flat sequence of 3*Nx*Ny*Nz Gaussian integers <<re, im>> in the C order of the code's
   (3, Nx, Ny, Nz) arrays; positions are 0-based triples.  Every field carries a positive integer denominator:
   the real value is numerator / denominator.  courant_number is exactly 1/2 (courant_factor = sqrt(3)/2), inverse
   material values are ie2/2, im2/2 with ie2, im2 in {1, 2, 4}, so each half-update multiplies a denominator by 4
   (times the metric and loss denominators below).

   A configuration g is a record
     N     <<Nx,Ny,Nz>>
     wrap  <<b,b,b>>            axis uses wrap padding (periodic / Bloch)
     ph    <<p,p,p>>  p in 0..3  Bloch phase exp(i k L) = i^p of that axis (0 = plain periodic)
     pec, pmc  <<<<lo,hi>>,...>> BOOLEAN per face: PEC / PMC wall object on that face (neither = bare zero halo)
     ie2, im2  flat sequences   2 * inverse permittivity / permeability per component and cell
     loss  flat sequence of 0/1 1 = conductive cell/component with c*sigma*eta0*inv_eps/2 = 1/3, i.e.
                                E' = (1/2) E + (3/4) c inv_eps curl      (all zero = lossless configuration)
     w     <<wx, wy, wz>>       cell widths in {1, 2} (all 1 = uniform grid)
     src   sequence of sources  [kind "E"|"H", i flat index, on <<BOOLEAN per step>>, J <<integer sample per on-index>>]
     variant                    "ok" or the name of a deliberately wrong variant (negative instances)          *)
EXTENDS Integers, Sequences, FiniteSets, TLC

\* ---------------------------------------------------------------- Gaussian integers
GZ == << 0, 0 >>
GAdd(a, b) == << a[1] + b[1], a[2] + b[2] >>
GSub(a, b) == << a[1] - b[1], a[2] - b[2] >>
GK(k, a)   == << k * a[1], k * a[2] >>
GI(p, a)   == CASE p = 0 -> a                             \* multiply by i^p
                [] p = 1 -> << 0 - a[2], a[1] >>
                [] p = 2 -> << 0 - a[1], 0 - a[2] >>
                [] OTHER -> << a[2], 0 - a[1] >>
ReConjMul(a, b) == a[1] * b[1] + a[2] * b[2]               \* Re(conj(a) * b)

RECURSIVE GCD(_, _)
GCD(a, b) == IF b = 0 THEN a ELSE GCD(b, a % b)
LCM(a, b) == (a \div GCD(a, b)) * b

\* ---------------------------------------------------------------- lattice
NC(N)  == N[1] * N[2] * N[3]
NF(N)  == 3 * NC(N)
Ix(N, c, p) == (c - 1) * NC(N) + (p[1] * N[2] + p[2]) * N[3] + p[3] + 1
Comp(N, i)  == ((i - 1) \div NC(N)) + 1
Pos(N, i)   == LET r == (i - 1) % NC(N) IN << r \div (N[2] * N[3]), (r \div N[3]) % N[2], r % N[3] >>
Shift(p, a, q) == [ p EXCEPT ![a] = q ]
A1(c) == (c % 3) + 1            \* next axis in cyclic order
A2(c) == ((c + 1) % 3) + 1      \* the one after

\* A stencil is a sequence of terms << j, p, k >> meaning  k * i^p * F[j].
\* Term for component c one cell away (d = -1 | 1) from p along axis a, through the boundary halo, times k
\* (pad_fields: zero | wrap; BlochBoundary.apply_pad_correction: left ghost * conj(phase), right ghost * phase)
GetT(g, c, p, a, d, k) ==
    LET q == p[a] + d  n == g.N[a] IN
    IF q >= 0 /\ q < n THEN << << Ix(g.N, c, Shift(p, a, q)), 0, k >> >>
    ELSE IF ~g.wrap[a] THEN << >>
    ELSE IF q < 0 THEN << << Ix(g.N, c, Shift(p, a, n - 1)), (4 - g.ph[a]) % 4, k >> >>
    ELSE << << Ix(g.N, c, Shift(p, a, 0)), g.ph[a], k >> >>
Here(g, c, p, k) == << << Ix(g.N, c, p), 0, k >> >>

\* ---------------------------------------------------------------- metric (_metric_scale)
Uniform(g) == \A a \in 1..3 : \A k \in 1..g.N[a] : g.w[a][k] = 1
LE(g) == IF Uniform(g) THEN 1 ELSE 6      \* curl_H:  scale = 1 / dual width,  dual[k] = (w[k] + w[max(k-1,0)]) / 2
LH(g) == IF Uniform(g) THEN 1 ELSE 2      \* curl_E:  scale = 1 / width
Dual2(g, a, k) == g.w[a][k + 1] + g.w[a][IF k = 0 THEN 1 ELSE k]          \* 2 * dual width at 0-based index k
SB(g, a, k) == IF Uniform(g) THEN 1
               ELSE IF g.variant = "metric_primal" THEN 6 \div g.w[a][k + 1]   \* wrong: primal width in curl_H
               ELSE 12 \div Dual2(g, a, k)                                     \* LE / dual
SF(g, a, k) == IF Uniform(g) THEN 1 ELSE 2 \div g.w[a][k + 1]                  \* LH / width

\* ---------------------------------------------------------------- curls (as stencils)
\* sg * d_a F_c at p with the BACKWARD difference  F[p] - F[p - 1]   (curl_H)
DBT(g, c, p, a, sg) ==
    LET k == sg * SB(g, a, p[a]) IN
    IF g.variant = "shift" /\ c = 3 /\ a = 2          \* wrong: dyHz taken forward ([2:] instead of [:-2])
    THEN GetT(g, c, p, a, 1, k) \o Here(g, c, p, 0 - k)
    ELSE Here(g, c, p, k) \o GetT(g, c, p, a, -1, 0 - k)
\* curl_H, component c at p:  d_{a1} H_{a2} - d_{a2} H_{a1}
CurlHT(g, i) == LET c == Comp(g.N, i)  p == Pos(g.N, i)
                IN  DBT(g, A2(c), p, A1(c), 1) \o DBT(g, A1(c), p, A2(c), -1)
\* sg * d_a F_c at p with the FORWARD difference  F[p + 1] - F[p]    (curl_E)
DFT(g, c, p, a, sg) == LET k == sg * SF(g, a, p[a]) IN GetT(g, c, p, a, 1, k) \o Here(g, c, p, 0 - k)
CurlET(g, i) == LET c == Comp(g.N, i)  p == Pos(g.N, i)
                IN  DFT(g, A2(c), p, A1(c), 1)
                    \o DFT(g, A1(c), p, A2(c), IF g.variant = "curl_sign" /\ c = 1 THEN 1 ELSE -1)   \* wrong: dyEz + dzEy

\* ---------------------------------------------------------------- walls (apply_post_E_update / apply_post_H_update)
OnFace(g, p, a, side) == IF side = 1 THEN p[a] = 0 ELSE p[a] = g.N[a] - 1
\* component i is zeroed by a wall of the given kind: tangential components on the one-cell face layer
\* (the wall CONDITION is always the tangential one; `step` = what the projection step zeroes, wrong under "pec_normal")
Zeroed(g, walls, i, step) ==
    LET c == Comp(g.N, i)  p == Pos(g.N, i) IN
    \E a \in 1..3 : \E side \in 1..2 :
        /\ walls[a][side] /\ OnFace(g, p, a, side)
        /\ IF step /\ g.variant = "pec_normal" THEN c = a ELSE c # a

\* ---------------------------------------------------------------- lossy factors
Lossy(g) == \E i \in 1..NF(g.N) : g.loss[i] = 1
LQ(g)    == IF Lossy(g) THEN 4 ELSE 1
ANr(g, i) == IF ~Lossy(g) THEN 1 ELSE IF g.loss[i] = 1 THEN 2 ELSE 4    \* (1-s)/(1+s) = AN/LQ
BNr(g, i) == IF ~Lossy(g) THEN 1 ELSE IF g.loss[i] = 1 THEN 3 ELSE 4    \*    1/(1+s) = BN/LQ

\* energy weights:  wE4 = 4 * (primal width along the component axis) * (dual widths across it),  wH4 the converse
WE4(g, i) == LET c == Comp(g.N, i)  p == Pos(g.N, i)
             IN  g.w[c][p[c] + 1] * Dual2(g, A1(c), p[A1(c)]) * Dual2(g, A2(c), p[A2(c)])
WH4(g, i) == LET c == Comp(g.N, i)  p == Pos(g.N, i)
             IN  2 * Dual2(g, c, p[c]) * g.w[A1(c)][p[A1(c)] + 1] * g.w[A2(c)][p[A2(c)] + 1]

\* ---------------------------------------------------------------- compiled configuration
\* Everything that depends only on the configuration is tabulated once (TLC evaluates function constructors lazily,
\* TLCEval forces the tables).
Compile(g) ==
    LET n == NF(g.N) IN
    [ N |-> g.N, n |-> n, src |-> g.src, variant |-> g.variant, ie2 |-> TLCEval(g.ie2), im2 |-> TLCEval(g.im2),
      stH |-> TLCEval([ i \in 1..n |-> CurlHT(g, i) ]),          \* curl_H stencil of entry i (acts on H)
      stE |-> TLCEval([ i \in 1..n |-> CurlET(g, i) ]),          \* curl_E stencil of entry i (acts on E)
      zE  |-> TLCEval([ i \in 1..n |-> Zeroed(g, g.pec, i, FALSE) ]),    \* wall conditions
      zH  |-> TLCEval([ i \in 1..n |-> Zeroed(g, g.pmc, i, FALSE) ]),
      zEs |-> TLCEval([ i \in 1..n |-> Zeroed(g, g.pec, i, TRUE) ]),     \* what the projection steps zero
      zHs |-> TLCEval([ i \in 1..n |-> Zeroed(g, g.pmc, i, TRUE) ]),
      an  |-> TLCEval([ i \in 1..n |-> ANr(g, i) ]), bn |-> TLCEval([ i \in 1..n |-> BNr(g, i) ]),
      lossy |-> TLCEval([ i \in 1..n |-> Lossy(g) /\ g.loss[i] = 1 ]),
      we  |-> TLCEval([ i \in 1..n |-> WE4(g, i) * (4 \div g.ie2[i]) ]),     \* 8 * weight * eps
      wh  |-> TLCEval([ i \in 1..n |-> WH4(g, i) * (4 \div g.im2[i]) ]),     \* 8 * weight * mu
      le |-> LE(g), lh |-> LH(g), lq |-> LQ(g),
      real |-> \A a \in 1..3 : g.ph[a] = 0,
      cplx |-> \E a \in 1..3 : g.wrap[a] /\ g.ph[a] \in {1, 3} ]
\* from here on g is a COMPILED configuration
TermVal(F, tm) == GK(tm[3], GI(tm[2], F[tm[1]]))
RECURSIVE SumTerms(_, _, _)
SumTerms(F, T, k) == IF k = 0 THEN GZ ELSE GAdd(TermVal(F, T[k]), SumTerms(F, T, k - 1))
CurlH(g, F, i) == SumTerms(F, g.stH[i], Len(g.stH[i]))
CurlE(g, F, i) == SumTerms(F, g.stE[i], Len(g.stE[i]))
WallE(g, F) == TLCEval([ i \in 1..g.n |-> IF g.zEs[i] THEN GZ ELSE F[i] ])
WallH(g, F) == TLCEval([ i \in 1..g.n |-> IF g.zHs[i] THEN GZ ELSE F[i] ])
WallOK(g, s) == /\ \A i \in 1..g.n : g.zE[i] => s.E[i] = GZ
                /\ \A i \in 1..g.n : g.zH[i] => s.H[i] = GZ

\* ---------------------------------------------------------------- sources
\* time argument of a switched source: index among its on-steps (Source.adjust_time_step_by_on_off)
OnIdx(sr, t) == Cardinality({ u \in 1..t : sr.on[u] })                 \* t 0-based: on-steps strictly before t
IsOn(sr, t)  == sr.on[t + 1]
\* sum of the injections of all sources of one kind into flat index i at step t, per unit amplitude vector `amp`
Inj(g, kind, amp, i, t, raw) ==
    LET ks == { k \in 1..Len(g.src) : g.src[k].kind = kind /\ g.src[k].i = i /\ IsOn(g.src[k], t) }
        RECURSIVE Sum(_)
        Sum(S) == IF S = {} THEN 0
                  ELSE LET k == CHOOSE x \in S : TRUE
                           arg == IF raw THEN t ELSE OnIdx(g.src[k], t)
                       IN  amp[k] * g.src[k].J[arg + 1] + Sum(S \ {k})
    IN  Sum(ks)

\* ---------------------------------------------------------------- the half-updates on a run state
\* run state s = [E, H, Hp, dE, dH, dHp, amp]: numerators (flat sequences) and denominators; Hp = H one step earlier.
Div(a, b) == IF a % b = 0 THEN a \div b ELSE Assert(FALSE, <<"denominator not divisible", a, b>>)

\* update_E (before the wall):  E' = [AN q En + BN ie2 S(Hn)] / (LQ 4 LE dH),  q = 4 LE dH / dE ; then  E' += -c inv_eps amp J
UpdE(g, s, t) ==
    LET d2 == 4 * g.le * g.lq * s.dH
        q  == Div(4 * g.le * s.dH, s.dE)
    IN  [ s EXCEPT !.dE = d2,
                   !.E  = TLCEval([ i \in 1..g.n |->
                              LET amp == IF g.variant = "lin_double"        \* wrong: amplitude factor applied twice
                                         THEN [ k \in 1..Len(s.amp) |-> s.amp[k] * s.amp[k] ] ELSE s.amp
                                  inj == IF Len(g.src) = 0 THEN 0 ELSE Inj(g, "E", amp, i, t, FALSE)
                                  x == GAdd(GK(g.an[i] * q, s.E[i]), GK(g.bn[i] * g.ie2[i], CurlH(g, s.H, i)))
                              IN  << x[1] - g.ie2[i] * inj * (d2 \div 4), x[2] >> ]) ]
\* update_H (before the wall):  H' = [q Hn - im2 S(En)] / (4 LH dE) ; then  H' += -c inv_mu amp J ; Hp' = H
UpdH(g, s, t) ==
    LET d2 == 4 * g.lh * s.dE
        q  == Div(d2, s.dH)
    IN  [ s EXCEPT !.dH = d2, !.Hp = s.H, !.dHp = s.dH,
                   !.H  = TLCEval([ i \in 1..g.n |->
                              LET inj == IF Len(g.src) = 0 THEN 0 ELSE Inj(g, "H", s.amp, i, t, FALSE)
                                  x == GSub(GK(q, s.H[i]), GK(g.im2[i], CurlE(g, s.E, i)))
                              IN  << x[1] - g.im2[i] * inj * (d2 \div 4), x[2] >> ]) ]
ApplyWallE(g, s) == [ s EXCEPT !.E = WallE(g, s.E) ]
ApplyWallH(g, s) == [ s EXCEPT !.H = WallH(g, s.H) ]

\* update_H_reverse (before the wall): remove the injection (same time argument), then  H = H' + c inv_mu curl_E(E')
RevHU(g, s, t) ==
    LET L  == LCM(s.dH, 4 * g.lh * s.dE)
        qh == L \div s.dH
        qc == L \div (4 * g.lh * s.dE)
        raw == g.variant = "rev_noadj"
    IN  [ s EXCEPT !.dH = L,
                   !.H  = TLCEval([ i \in 1..g.n |->
                              LET inj == IF Len(g.src) = 0 THEN 0 ELSE Inj(g, "H", s.amp, i, t, raw)
                                  h == << s.H[i][1] * qh + g.im2[i] * inj * (L \div 4), s.H[i][2] * qh >>
                              IN  GAdd(h, GK(qc * g.im2[i], CurlE(g, s.E, i))) ]) ]
\* update_E_reverse (before the wall): remove the injection, then  E = (E' (1+s) - c inv_eps curl_H(H)) / (1-s)
RevEU(g, s, t) ==
    LET L  == LCM(s.dE, 4 * g.le * s.dH)
        qe == L \div s.dE
        qc == L \div (4 * g.le * s.dH)
        raw == g.variant = "rev_noadj"
    IN  [ s EXCEPT !.dE = g.lq * L,
                   !.E  = TLCEval([ i \in 1..g.n |->
                              LET inj == IF Len(g.src) = 0 THEN 0 ELSE Inj(g, "E", s.amp, i, t, raw)
                                  am == IF g.variant = "rev_nofactor" THEN 1 ELSE g.lq \div g.an[i]
                                  e == << s.E[i][1] * qe + g.ie2[i] * inj * (L \div 4), s.E[i][2] * qe >>
                              IN  GK(am, GSub(GK(g.lq, e), GK(g.bn[i] * g.ie2[i] * qc, CurlH(g, s.H, i)))) ]) ]

\* one full step of forward() / backward() in the code's order
Forward(g, s, t)  == ApplyWallH(g, UpdH(g, ApplyWallE(g, UpdE(g, s, t)), t))
Backward(g, s, t) == ApplyWallE(g, RevEU(g, ApplyWallH(g, RevHU(g, s, t)), t))
\* H one half-step earlier than the state's H, as the code's own reverse H update defines it (sources off)
Prime(g, s) == LET r == ApplyWallH(g, RevHU(g, s, 0)) IN [ s EXCEPT !.Hp = r.H, !.dHp = r.dH ]

\* ---------------------------------------------------------------- comparisons of scaled fields
FieldEq(F, dF, G, dG) == LET L == LCM(dF, dG) IN
    \A i \in 1..Len(F) : GK(L \div dF, F[i]) = GK(L \div dG, G[i])
SameEH(s, u) == FieldEq(s.E, s.dE, u.E, u.dE) /\ FieldEq(s.H, s.dH, u.H, u.dH)
IsReal(F) == \A i \in 1..Len(F) : F[i][2] = 0

\* ---------------------------------------------------------------- discrete energy (C01)
\* 8 W = sum wE4 e2 |E|^2  +  sum wH4 m2 Re(conj(Hp) H),   e2 = 2 eps = 4/ie2,  m2 = 2 mu = 4/im2   (tables g.we, g.wh)
RECURSIVE SumTo(_, _)
SumTo(f, n) == IF n = 0 THEN 0 ELSE f[n] + SumTo(f, n - 1)
\* energy as <<numerator, denominator>>
Energy(g, s) ==
    LET n  == g.n
        D  == LCM(s.dE * s.dE, s.dHp * s.dH)
        ke == D \div (s.dE * s.dE)
        kh == D \div (s.dHp * s.dH)
        te == [ i \in 1..n |-> g.we[i] * ReConjMul(s.E[i], s.E[i]) ]
        th == [ i \in 1..n |-> g.wh[i] * ReConjMul(s.Hp[i], s.H[i]) ]
    IN  << ke * SumTo(te, n) + kh * SumTo(th, n), D >>
\* dissipated in the step from s to u:  8 Diss = sum wE4 e2 (1/3) |E' + E|^2   over conductive entries (>= 0)
Diss(g, s, u) ==
    LET n == g.n
        L == LCM(s.dE, u.dE)
        td == [ i \in 1..n |-> IF g.lossy[i]
                               THEN LET x == GAdd(GK(L \div s.dE, s.E[i]), GK(L \div u.dE, u.E[i]))
                                    IN  g.we[i] * ReConjMul(x, x)
                               ELSE 0 ]
    IN  << SumTo(td, n), 3 * L * L >>
RatSub(x, y) == LET L == LCM(x[2], y[2]) IN << x[1] * (L \div x[2]) - y[1] * (L \div y[2]), L >>
RatAdd(x, y) == LET L == LCM(x[2], y[2]) IN << x[1] * (L \div x[2]) + y[1] * (L \div y[2]), L >>
\* C01:  W(u) - W(s) + Diss(s,u) = 0 ; in particular W never increases
EnergyBalanced(g, s, u) == RatAdd(RatSub(Energy(g, u), Energy(g, s)), Diss(g, s, u))[1] = 0
EnergyNotIncreased(g, s, u) == RatSub(Energy(g, u), Energy(g, s))[1] <= 0

\* ---------------------------------------------------------------- linear combinations (C10)
LinComb(al, F, be, G) == [ i \in 1..Len(F) |-> GAdd(GK(al, F[i]), GK(be, G[i])) ]
=============================================================================
