SPECIFICATION Spec
CONSTANTS MaxT = 6  MaxRule = "max_steps"
INVARIANT HaltsAtFirstStop
INVARIANT NeverLate
INVARIANT NeverLateTime
INVARIANT NeverEarly
PROPERTY NoStepAfterStop
CHECK_DEADLOCK FALSE
