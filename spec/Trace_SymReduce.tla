------------------------- MODULE Trace_SymReduce -------------------------
(* C33 conformance: TLC evaluates the symmetry-reduction relation on arrays observed from REAL runs.
   One record = a full scene (config.symmetry = 0) and the same scene with an electric symmetry plane on axis ax
   (config.symmetry[ax] = -1, reduced automatically by place_objects), both stepped with forward() from
   parity-consistent initial fields.  Per recorded step k (completed steps t): Ef, Hf full-domain arrays, Er, Hr
   reduced arrays, Eu, Hu = fdtdx.unfold_fields(reduced).  Entries are 3-limb integers (RelNum).
   Clauses, evaluated only on entries outside the light cone of the full domain's min boundary
   (SymReduceDefs!OutsideCone with the boundary thickness `thick`):
     violation  unfolded reduced run # full run                         (the property as stated)
     drift      full run # sign * reduced[mirror source] by the spec's own index map / parity table
   Co-located detector records (library-unfolded vs full run; Field and Phasor detectors, also with component subsets
   given in non-canonical order) are compared entry by entry with one extra cell of margin for the co-location
   stencil; volume-reduced records over a plane-straddling region that lies outside the light cone are compared
   component by component, for the components sampled half a cell off the plane (SymReduceDefs!SampledOffPlane).                                                                    *)
EXTENDS Integers, Sequences, FiniteSets, TLC, TLCExt, Json, IOUtils

S == INSTANCE SymReduceDefs
R == INSTANCE RelNum

Cases == JsonDeserialize(IOEnv.TRACE_FILE)
VARIABLES ci

Zero3 == << 0, 0, 0 >>
UnfoldOK(c, st, full, unf) ==
    \A I \in 1..S!Size(c.NF) : S!OutsideCone(I, c.NF, c.ax, c.thick, st.t) => R!NearL3(unf[I], full[I], 1, c.tol)
MapOK(c, st, full, red, ft) ==
    \A I \in 1..S!Size(c.NF) :
        S!OutsideCone(I, c.NF, c.ax, c.thick, st.t) =>
            LET s == S!MirrorSrc(I, c.NF, c.ax, ft, "ok")
            IN  s # 0 /\ R!NearL3(full[I], red[s], S!MirrorSign(I, c.NF, c.ax, ft, "ok"), c.tol)
\* detector block: array (ncomp, N) (components in the detector's stored order) covering full-domain cells off.. along
\* ax; guard with the shifted coordinate
DetOK(c, d) ==
    \A i \in 1..Len(d.a) :
        (S!Coord(i, d.N, c.ax + 1) + d.off - c.thick > d.t + 1) => R!NearL3(d.b[i], d.a[i], 1, c.tol)
\* volume-reduced record (one value per stored component) over a region that starts at full-domain cell `off` along
\* ax and is mirror-symmetric about the plane: claimed only if the whole region is outside the light cone
RDetGuard(c, d) == d.off - c.thick > d.t + 1 /\ d.off < c.NF[c.ax + 1] \div 2
RDetOK(c, d) == \A i \in 1..Len(d.a) :
                    S!SampledOffPlane(d.comps[i][1], d.comps[i][2], c.ax, d.coloc) => R!NearL3(d.b[i], d.a[i], 1, c.tol)
RDetClaims(c, d) == \E i \in 1..Len(d.a) : S!SampledOffPlane(d.comps[i][1], d.comps[i][2], c.ax, d.coloc)
Checked(c, st) == \E I \in 1..S!Size(c.NF) : S!OutsideCone(I, c.NF, c.ax, c.thick, st.t) /\ S!Coord(I, c.NF, c.ax + 1) < c.NF[c.ax + 1] \div 2

WellFormed(c) ==
    /\ c.NF[c.ax + 1] % 2 = 0
    /\ \A k \in 1..Len(c.steps) :
         LET st == c.steps[k] IN
         /\ Len(st.Ef) = S!Size(c.NF) /\ Len(st.Hf) = S!Size(c.NF) /\ Len(st.Eu) = S!Size(c.NF) /\ Len(st.Hu) = S!Size(c.NF)
         /\ Len(st.Er) = S!Size(S!Halve(c.NF, c.ax)) /\ Len(st.Hr) = S!Size(S!Halve(c.NF, c.ax))
    /\ \A k \in 1..Len(c.dets) : /\ Len(c.dets[k].a) = Len(c.dets[k].b) /\ Len(c.dets[k].a) >= 1
                                   /\ Len(c.dets[k].a) % S!Cells(c.dets[k].N) = 0
    /\ \A k \in 1..Len(c.rdets) : Len(c.rdets[k].a) = Len(c.rdets[k].b) /\ Len(c.rdets[k].comps) = Len(c.rdets[k].a) /\ RDetGuard(c, c.rdets[k])
    /\ Checked(c, c.steps[Len(c.steps)])        \* the mirrored half is still (partly) outside the cone at the end

StepUnfoldOK(c, k) == UnfoldOK(c, c.steps[k], c.steps[k].Ef, c.steps[k].Eu) /\ UnfoldOK(c, c.steps[k], c.steps[k].Hf, c.steps[k].Hu)
StepMapOK(c, k) == MapOK(c, c.steps[k], c.steps[k].Ef, c.steps[k].Er, "E") /\ MapOK(c, c.steps[k], c.steps[k].Hf, c.steps[k].Hr, "H")

Verdict(c) ==
    IF ~WellFormed(c) THEN "malformed: record shape / nothing of the mirrored half left outside the light cone"
    ELSE IF ~StepMapOK(c, 1) THEN "malformed: initial full-domain fields are not the mirror extension of the reduced ones"
    ELSE IF \E k \in 1..Len(c.steps) : ~StepUnfoldOK(c, k)
         THEN "symmetry: unfolded reduced fields differ from the full-domain run outside the far boundary's light cone"
    ELSE IF \E k \in 1..Len(c.dets) : ~DetOK(c, c.dets[k])
         THEN "symmetry: unfolded co-located detector record differs from the full-domain record outside the light cone"
    ELSE IF \E k \in 1..Len(c.rdets) : ~RDetOK(c, c.rdets[k])
         THEN "symmetry: unfolded volume-reduced detector record differs from the full-domain record"
    ELSE IF \E k \in 2..Len(c.steps) : ~StepMapOK(c, k)
         THEN "drift: full-domain run differs from the reduced run under the spec's mirror map (library unfold agrees)"
    ELSE "ok"

TInit == ci = 1 /\ TLCSet(1, << >>)
TNext == /\ ci <= Len(Cases)
         /\ LET c == Cases[ci] IN TLCSet(1, Append(TLCGet(1), [ id |-> c.id, v |-> Verdict(c) ]))
         /\ ci' = ci + 1
TSpec == TInit /\ [][TNext]_ci
Post == ndJsonSerialize(IOEnv.VERDICT_FILE, TLCGet(1))
=======================================================================
