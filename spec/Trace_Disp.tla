---------------------------- MODULE Trace_Disp ----------------------------
(* C35 conformance: numbers returned by the REAL coefficient functions of /repo/src (LorentzPole / DrudePole /
   CCPRPole(.from_critical_point), compute_pole_coefficients{,_per_axis,_tensor},
   materials.compute_allowed_dispersive_coefficients, susceptibility_from_coefficients) are judged with the
   definitions of DispDefs (the ones Disp.tla is model-checked with).

   Record kinds
     "mat"   one material = a list of declared poles (rational parameters in units of dt; per-axis poles carry
             one parameter vector per axis, oriented poles a rational unit vector u) discretised through `api`
             into `nslots` pole slots.  Per slot: observed c1, c2 (ncr components), c3, c4 (ncc components), an
             exact all-zero flag, and chi(x) of the slot alone at the rational test points xs; `tot` = chi of all
             slots together.  Floats are sent as round(v * 10^12) in three limbs (DispDefs).
             Component k of c1/c2 is axis k; component e of c3/c4/chi is (e,e) for ncc <= 3 and the row-major
             3x3 entry for ncc = 9.
     "asym"  trace-monitor clause: relative error of the recurrence's own frequency response against the declared
             model at omega*dt = 2^-k, k = 2..8 (dt halved, pole and omega fixed), scaled by `scale`.
   Verdict = first failing clause.  Clauses starting with "model:" compare with the detailed coefficient model
   (classified as drift by the check module), "malformed:" is a harness error.                               *)
EXTENDS Integers, Sequences, FiniteSets, TLC, TLCExt, Json, IOUtils

D == INSTANCE DispDefs

Cases == JsonDeserialize(IOEnv.TRACE_FILE)
VARIABLE ci

One == << 10000, 0, 0 >>          \* 1.0 in limbs
Kinds == { "lorentz", "drude", "cp", "ccpr" }

\* ---------------------------------------------------------------- declared side
AxPole(p, i) == [ ptype |-> p.ptype, v |-> p.ax[i] ]                       \* the 1-D oscillator acting on axis i
Fac(p, i, j) == IF p.form = "oriented" THEN D!RMul(D!Rn(p.u[i]), D!Rn(p.u[j]))
                ELSE IF i = j THEN D!RI(1) ELSE D!RZ
Row(ncc, e) == IF ncc = 9 THEN ((e - 1) \div 3) + 1 ELSE e
Col(ncc, e) == IF ncc = 9 THEN ((e - 1) % 3) + 1 ELSE e
ExpCoef(p, i) == D!Coef(D!Unified(AxPole(p, i)), "ok")

WellFormedPole(p) ==
    /\ p.ptype \in Kinds /\ p.form \in { "iso", "axes", "oriented" }
    /\ Len(p.ax) = 3 /\ Len(p.u) = 3
    /\ \A i \in 1..3 : /\ Len(p.ax[i]) = (CASE p.ptype = "lorentz" -> 3 [] p.ptype = "drude" -> 2 [] p.ptype = "cp" -> 5 [] OTHER -> 4)
                       /\ \A k \in 1..Len(p.ax[i]) : p.ax[i][k][2] > 0
    /\ p.form # "axes" => p.ax[1] = p.ax[2] /\ p.ax[2] = p.ax[3]
    /\ p.form = "oriented" =>                                   \* rational unit vector
          LET s == D!RAdd(D!RAdd(D!RSq(D!Rn(p.u[1])), D!RSq(D!Rn(p.u[2]))), D!RSq(D!Rn(p.u[3]))) IN s = D!RI(1)
    /\ p.ptype = "cp" => \A i \in 1..3 : D!RAdd(D!RSq(D!Rn(p.ax[i][4])), D!RSq(D!Rn(p.ax[i][5]))) = D!RI(1)

WellFormed(c) ==
    /\ c.ncr \in { 1, 3 } /\ c.ncc \in { 1, 3, 9 } /\ c.ncr <= c.ncc
    /\ Len(c.slots) = c.nslots /\ Len(c.poles) <= c.nslots
    /\ c.tol >= 1 /\ c.tol <= 100 /\ c.rel >= 1 /\ c.rel <= 1000 /\ c.jtol >= 0 /\ c.jtol <= 100
    /\ \A k \in 1..Len(c.poles) : WellFormedPole(c.poles[k])
    /\ Len(c.tot) = Len(c.xs)
    /\ \A s \in 1..c.nslots :
          LET sl == c.slots[s] IN
          /\ Len(sl.c1) = c.ncr /\ Len(sl.c2) = c.ncr /\ Len(sl.c3) = c.ncc /\ Len(sl.c4) = c.ncc
          /\ Len(sl.chi) = Len(c.xs)
          /\ \A k \in 1..c.ncr : D!IsL3(sl.c1[k]) /\ D!IsL3(sl.c2[k])
          /\ \A e \in 1..c.ncc : D!IsL3(sl.c3[e]) /\ D!IsL3(sl.c4[e])
          /\ \A t \in 1..Len(c.xs) : Len(sl.chi[t]) = c.ncc /\ \A e \in 1..c.ncc : D!IsL3(sl.chi[t][e][1]) /\ D!IsL3(sl.chi[t][e][2])
    /\ \A t \in 1..Len(c.xs) : c.xs[t][2] > 0 /\ Len(c.tot[t]) = c.ncc

\* ---------------------------------------------------------------- clause (a): reconstructed chi = declared model
\* entry e of slot s at test point t
ChiEntryOK(c, p, sl, t, e) ==
    LET i == Row(c.ncc, e)  j == Col(c.ncc, e)
        x == D!Rn(c.xs[t])
        f == Fac(p, i, j)
        nd == D!DeclNumDen(AxPole(p, i), x)
        ob == sl.chi[t][e]
    IN  IF D!RIsZ(f) \/ D!CIsZ(nd[1]) THEN D!AbsLe3(ob[1][1], ob[1][2], ob[1][3], c.tol) /\ D!AbsLe3(ob[2][1], ob[2][2], ob[2][3], c.tol)
        ELSE D!NearQuot(ob[1], ob[2], D!CScale(f, nd[1]), nd[2], c.rel)
ChiOK(c) == \A s \in 1..Len(c.poles) : \A t \in 1..Len(c.xs) : \A e \in 1..c.ncc :
                ChiEntryOK(c, c.poles[s], c.slots[s], t, e)
\* the total over all slots is the sum of the slots' own contributions
RECURSIVE SumObs(_, _, _, _, _)
SumObs(c, t, e, part, k) == IF k = 0 THEN << 0, 0, 0 >> ELSE D!AddL3(SumObs(c, t, e, part, k - 1), c.slots[k].chi[t][e][part])
TotalOK(c) == \A t \in 1..Len(c.xs) : \A e \in 1..c.ncc : \A part \in 1..2 :
                 LET r == D!SubL3(c.tot[t][e][part], SumObs(c, t, e, part, c.nslots)) IN
                 D!AbsLe3(r[1], r[2], r[3], c.tol * (c.nslots + 1) + D!Abs(c.tot[t][e][part][1]) \div 1000)

\* ---------------------------------------------------------------- clause (b): Jury on the observed coefficients
JuryObs(c1, c2, jt) ==
    /\ D!LeL3(D!AbsL3(c2), One, jt)
    /\ D!LeL3(D!AbsL3(c1), D!SubL3(One, c2), jt)
JuryOK(c) == \A s \in 1..Len(c.poles) : \A k \in 1..c.ncr :
                 LET u == D!Unified(AxPole(c.poles[s], k)) IN
                 D!Precond(u) => JuryObs(c.slots[s].c1[k], c.slots[s].c2[k], c.jtol)

\* ---------------------------------------------------------------- clause (c): padded slots
PadOK(c) == \A s \in (Len(c.poles) + 1)..c.nslots :
                LET sl == c.slots[s] IN
                /\ sl.zero
                /\ \A k \in 1..c.ncr : D!ZeroL3(sl.c1[k]) /\ D!ZeroL3(sl.c2[k])
                /\ \A e \in 1..c.ncc : D!ZeroL3(sl.c3[e]) /\ D!ZeroL3(sl.c4[e])
PadChiOK(c) == /\ \A s \in (Len(c.poles) + 1)..c.nslots : \A t \in 1..Len(c.xs) : \A e \in 1..c.ncc :
                      D!ZeroL3(c.slots[s].chi[t][e][1]) /\ D!ZeroL3(c.slots[s].chi[t][e][2]) /\ c.slots[s].chi_zero
               /\ c.pad_same

\* ---------------------------------------------------------------- detailed model: the coefficients themselves
CoefOK(c) == \A s \in 1..Len(c.poles) :
    LET p == c.poles[s]  sl == c.slots[s] IN
    /\ \A k \in 1..c.ncr : LET ex == ExpCoef(p, k) IN D!NearRat(sl.c1[k], ex.c1, c.tol) /\ D!NearRat(sl.c2[k], ex.c2, c.tol)
    /\ \A e \in 1..c.ncc : LET i == Row(c.ncc, e)  f == Fac(p, i, Col(c.ncc, e))  ex == ExpCoef(p, i) IN
                              D!NearRat(sl.c3[e], D!RMul(f, ex.c3), c.tol) /\ D!NearRat(sl.c4[e], D!RMul(f, ex.c4), c.tol)

MatVerdict(c) ==
    IF ~WellFormed(c) THEN "malformed: mat record"
    ELSE IF ~c.finite THEN "chi: non-finite coefficient or susceptibility"
    ELSE IF ~ChiOK(c) THEN "chi: susceptibility reconstructed from the stored coefficients differs from the declared pole model"
    ELSE IF ~TotalOK(c) THEN "chi: total susceptibility is not the sum over the pole slots"
    ELSE IF ~JuryOK(c) THEN "jury: a recurrence root lies outside the unit circle"
    ELSE IF ~PadOK(c) THEN "pad: a padded pole slot holds non-zero coefficients"
    ELSE IF ~PadChiOK(c) THEN "pad: a padded pole slot contributes to the susceptibility"
    ELSE IF ~CoefOK(c) THEN "model: stored coefficients differ from the documented (c1,c2,c3,c4) map"
    ELSE "ok"

\* ---------------------------------------------------------------- clause (d), trace-monitor
\* errs[k] = relative error at omega*dt = 2^-(k+1); once an error is below thr the next halving must reduce it at
\* least 3-fold (second order: 4-fold in the limit); more than 5-fold is only reported against the detailed model
AsymVerdict(c) ==
    LET n == Len(c.errs) IN
    IF ~(n >= 4 /\ c.scale > 0 /\ c.thr > 0 /\ c.thr <= c.scale /\ c.ptype \in { "lorentz", "drude" } /\ \A k \in 1..n : c.errs[k] >= 0)
        THEN "malformed: asym record"
    ELSE IF c.errs[n] > c.thr \div 64 THEN "asym: recurrence response does not approach the declared model as omega*dt -> 0"
    ELSE IF \E k \in 1..(n - 1) : c.errs[k] <= c.thr /\ c.errs[k] > c.floor /\ 3 * c.errs[k + 1] > c.errs[k]
        THEN "asym: relative error is not O((omega*dt)^2)"
    ELSE IF \E k \in 1..(n - 1) : c.errs[k] <= c.thr /\ c.errs[k + 1] > c.floor /\ 5 * c.errs[k + 1] < c.errs[k]
        THEN "model: error falls faster than second order"
    ELSE "ok"

Verdict(c) == CASE c.kind = "mat" -> MatVerdict(c) [] c.kind = "asym" -> AsymVerdict(c) [] OTHER -> "malformed: kind"

TInit == ci = 1 /\ TLCSet(1, << >>)
TNext == /\ ci <= Len(Cases)
         /\ LET c == Cases[ci] IN TLCSet(1, Append(TLCGet(1), [ id |-> c.id, v |-> Verdict(c) ]))
         /\ ci' = ci + 1
TSpec == TInit /\ [][TNext]_ci
Post == ndJsonSerialize(IOEnv.VERDICT_FILE, TLCGet(1))
=============================================================================
