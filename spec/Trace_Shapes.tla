------------------------ MODULE Trace_Shapes ------------------------
(* Validates voxel masks returned by the REAL fdtdx Sphere / Cylinder / ExtrudedPolygon
   (get_voxel_mask_for_shape() of the placed object) against the exact integer inclusion test of ShapesDefs.
   One record = one placed object:
     kind   : "ell" | "cyl" | "poly"
     edges  : per axis the integer edge coordinates (unit D) of the object's placed box, n_a + 1 values
     rad    : the radius in quarter units (ell: Sphere.radius, the default; cyl: Cylinder.radius; poly: unused)
     given  : ell: radius_x, radius_y, radius_z as passed to the constructor in quarter units, 0 = omitted (None);
              cyl / poly: << 0, 0, 0 >>.  The analytic radii are ShapesDefs!EffRadii(rad, given)
     axis   : extrusion axis 1..3 (cyl, poly)
     poly   : polygon vertices << h, v >> in quarter units relative to the middle of the box (poly)
     mshape : shape of the mask as returned (an extent of 1 is broadcast, as fdtdx does when it applies the mask)
     mask   : the mask broadcast to the box, flattened in C order, 0/1
   The analytic shape is centred in the middle of the placed box (that is where fdtdx puts it).
   TLC decides per cell: centre strictly inside <=> marked.  Centres exactly on a polygon edge are don't-care.
   A centre exactly on an ellipsoid/cylinder surface must not be marked whenever every term d/r is a dyadic
   rational (binary floating point is then exact and the comparison operator alone decides); for other radii
   the float64 sum may round to either side of 1, which the property does not constrain.                 *)
EXTENDS Integers, Sequences, FiniteSets, TLC, TLCExt, Json, IOUtils

S == INSTANCE ShapesDefs

Cases == JsonDeserialize(IOEnv.TRACE_FILE)
VARIABLES ci

N(c, a) == Len(c.edges[a]) - 1
NCells(c) == N(c, 1) * N(c, 2) * N(c, 3)
\* flattened C-order index x (1-based) -> cell << i, j, k >> (1-based)
CellOf(c, x) == << ((x - 1) \div (N(c, 2) * N(c, 3))) + 1, (((x - 1) \div N(c, 3)) % N(c, 2)) + 1, ((x - 1) % N(c, 3)) + 1 >>
\* analytic radii: the default radius where a per-axis radius is omitted (0) - decided here, not by the harness
ShapeOf(c) == [ kind |-> c.kind, q |-> S!EffRadii(c.rad, << c.given[1], c.given[2], c.given[3] >>, "rule"), axis |-> c.axis,
                poly |-> [ i \in 1..Len(c.poly) |-> << c.poly[i][1], c.poly[i][2] >> ] ]
\* cell centre minus box middle, quarter units
DOf(c, cell) == [ a \in 1..3 |-> S!Centre4(c.edges[a], cell[a]) - S!Mid4(c.edges[a], 1, Len(c.edges[a])) ]

WellFormed(c) ==
    /\ c.kind \in {"ell", "cyl", "poly"} /\ c.axis \in 1..3
    /\ Len(c.edges) = 3 /\ Len(c.given) = 3 /\ c.rad \in 1..24 /\ Len(c.mshape) = 3
    /\ \A a \in 1..3 : /\ Len(c.edges[a]) >= 2
                       /\ \A i \in 1..N(c, a) : c.edges[a][i] < c.edges[a][i + 1]
                       /\ c.edges[a][Len(c.edges[a])] - c.edges[a][1] <= 24            \* keeps the products inside 32 bits
                       /\ S!Abs(c.edges[a][1]) <= 1000
                       /\ c.given[a] \in 0..24
    /\ Len(c.mask) = NCells(c) /\ \A x \in 1..NCells(c) : c.mask[x] \in {0, 1}
    /\ c.kind = "poly" => /\ Len(c.poly) >= 3
                          /\ \A i \in 1..Len(c.poly) : Len(c.poly[i]) = 2 /\ S!Abs(c.poly[i][1]) <= 100 /\ S!Abs(c.poly[i][2]) <= 100

\* 0 = fine, 1 = marked although the centre is not inside, 2 = unmarked although strictly inside,
\* 3 = marked although exactly on the surface (tie that floating point decides exactly)
CellFault(c, sh, x) ==
    LET d == DOf(c, CellOf(c, x))
        on == S!OnBoundary(sh, d)
        marked == c.mask[x] = 1
    IN IF sh.kind = "poly" /\ on THEN 0
       ELSE IF on THEN (IF marked /\ S!ExactTie(sh, d) THEN 3 ELSE 0)
       ELSE IF marked /\ ~S!Strictly(sh, d) THEN 1
       ELSE IF ~marked /\ S!Strictly(sh, d) THEN 2
       ELSE 0

Verdict(c) ==
    IF ~WellFormed(c) THEN "malformed: record shape"
    ELSE IF \E a \in 1..3 : c.mshape[a] # N(c, a) /\ c.mshape[a] # 1
         THEN "shape: the returned mask neither has the extent of the placed box nor broadcasts to it"
    ELSE LET sh == ShapeOf(c)
             faults == [ x \in 1..NCells(c) |-> CellFault(c, sh, x) ]
         IN IF \A x \in 1..NCells(c) : faults[x] = 0 THEN "ok"
            ELSE LET x == CHOOSE y \in 1..NCells(c) : faults[y] # 0 /\ \A z \in 1..(y - 1) : faults[z] = 0
                     where == " (first cell " \o ToString(CellOf(c, x)) \o ", centre - middle = " \o ToString(DOf(c, CellOf(c, x))) \o " quarter units)"
                 IN CASE faults[x] = 1 -> "inclusion: a marked cell's centre is not inside the analytic shape" \o where
                      [] faults[x] = 2 -> "inclusion: a cell whose centre is strictly inside the analytic shape is not marked" \o where
                      [] OTHER         -> "boundary: a cell whose centre lies exactly on the surface is marked (strictly inside required)" \o where

TInit == ci = 1 /\ TLCSet(1, << >>)
TNext == /\ ci <= Len(Cases)
         /\ LET c == Cases[ci] IN TLCSet(1, Append(TLCGet(1), [ id |-> c.id, v |-> Verdict(c) ]))
         /\ ci' = ci + 1
TSpec == TInit /\ [][TNext]_ci
Post == ndJsonSerialize(IOEnv.VERDICT_FILE, TLCGet(1))
=======================================================================
