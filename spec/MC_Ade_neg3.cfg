SPECIFICATION Spec
CONSTANTS Variant = "no_divisor"  MaxT = 3  Drives <- DrivesQ  InvEps <- IeQ  CellKinds <- KindsQ  Losses <- LossQ
INVARIANT TypeOK
INVARIANT History
INVARIANT Recurrence
INVARIANT PrevIsOld
INVARIANT Ampere
INVARIANT ZeroPoles
CHECK_DEADLOCK FALSE
