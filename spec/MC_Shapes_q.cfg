SPECIFICATION Spec
CONSTANTS Size = "q"  Variant = "strict"
INVARIANT TypeOK
INVARIANT MaskIsInclusion
INVARIANT RadiiByRule
INVARIANT BoundaryExcluded
INVARIANT SymmetricMask
INVARIANT Extruded
PROPERTY Monotone
PROPERTY MirrorEquivariant
CHECK_DEADLOCK FALSE
