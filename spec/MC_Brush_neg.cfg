SPECIFICATION Spec
CONSTANTS
  Dims <- DimsT3
  Brushes = { "d2" }
  Levels <- NegPos
  Variant = "ignore_impossible"
  DesignSet <- AllLevels
INVARIANT TypeOK
INVARIANT NoConflict
INVARIANT PostCondition
CHECK_DEADLOCK TRUE
