#!/bin/bash
# usage: tools/run_all.sh [tier] [ids...]   - runs the registered checks one after the other (evidence is rewritten)
TIER=${1:-quick}; shift
cd /verif
IDS="$@"
[ -z "$IDS" ] && IDS=$(python3 -c "import json;print(' '.join(x['property_id'] for x in json.load(open('MANIFEST.json'))['checks']))")
for c in $IDS; do
  /venv/bin/python run.py $c --tier $TIER 2>&1 | grep -E "^VIOLATION|^KNOWN-FINDING|MACHINERY-ERROR|violations=" | head -6
  echo "$c rc=${PIPESTATUS[0]}"
done
