#!/bin/bash
# usage: tools/mut.sh <CHECK> <file relative to src/fdtdx> <sed expression> [tier]
# applies a mutant to a scratch copy of /repo/src and runs the check against it (FDTDX_SRC override)
set -u
C=$1; F=$2; E=$3; TIER=${4:-quick}
D=$(mktemp -d /tmp/mut_XXXXXX)
cp -r /repo/src $D/src
find $D/src -name __pycache__ -prune -exec rm -rf {} + 2>/dev/null
sed -i "$E" $D/src/fdtdx/$F
if diff -q /repo/src/fdtdx/$F $D/src/fdtdx/$F >/dev/null; then echo "MUTANT DID NOT APPLY"; rm -rf $D; exit 3; fi
FDTDX_SRC=$D/src /venv/bin/python /verif/run.py $C --tier $TIER 2>&1 | grep -E "VIOLATION|MACHINERY|violations=" | head -4
echo "rc=${PIPESTATUS[0]}"
rm -rf $D
git -C /verif checkout -- evidence/$C.json 2>/dev/null
