#!/usr/bin/env python3
import json, os, sys
VERIF = os.path.dirname(os.path.dirname(os.path.abspath(__file__)))
sys.path.insert(0, VERIF)
from checks.registry import ACCEPTED, CLAIMS, ENGINES, NOT_APPLICABLE  # noqa
import glob
for f in sorted(glob.glob(os.path.join(VERIF, "checks", "C*.claim.json"))):
    pid = os.path.basename(f).split(".")[0]
    if pid not in CLAIMS and pid in ACCEPTED and os.path.exists(os.path.join(VERIF, "checks", pid + ".py")):
        CLAIMS[pid] = json.load(open(f))
ENG_KIND = {
    "params": "TLA+ specs of the parameter transforms (pure functions as one-step machines); TLC enumerates inputs; one real call per TLC case, validated by trace specs",
    "place": "TLA+ specs of the placement solver / painter / overlap / symmetric placement / shapes / grid helpers; replay through resolve_object_constraints/place_objects/apply_params",
    "detect": "TLA+ specs of detector co-location, reductions, phasor DFT, unfolding; exact replay through Detector.update and stepped runs",
    "algebra": "TLA+ specs of dispersion coefficients, material normalisation, functional heap updates, wave descriptions",
    "yee": "TLA+ Yee-step specs (integer/rational arithmetic) and product specs; basis-state replay through forward/backward",
    "monitor": "trace-monitor specs over logged scaled-integer observations of pipeline runs",
}
names = {e["name"] for e in ENGINES}
for c in CLAIMS.values():
    if c["engine"] not in names:
        ENGINES.append({"name": c["engine"], "path": "spec/", "kind_free_text": ENG_KIND.get(c["engine"], "TLA+ spec + TLC + trace validation")})
        names.add(c["engine"])
props = [json.loads(l) for l in open(os.path.join(VERIF, "properties.jsonl"))]
ids = [p["id"] for p in props]
checks = []
for pid in ids:
    if pid not in CLAIMS:
        continue
    c = CLAIMS[pid]
    checks.append({
        "property_id": pid,
        "quick_cmd": f"/venv/bin/python run.py {pid} --tier quick",
        "thorough_cmd": f"/venv/bin/python run.py {pid} --tier thorough",
        "evidence_file": f"/verif/evidence/{pid}.json",
        "replay_cmd_template": f"/venv/bin/python run.py {pid} --replay {{path}}",
        "engine": c["engine"],
        "level_claimed": {"category": c["level"], "text": c["text"], "design_ref": c.get("design_ref", "")},
        "level_note": c["note"],
        "technique": c["technique"],
    })
na = []
for pid in ids:
    if pid in CLAIMS:
        continue
    na.append({"property_id": pid, "reason": NOT_APPLICABLE.get(pid, "check not built yet in this round (planned: DESIGN.md §5); nothing is claimed for it")})
eng = []
for e in ENGINES:
    e = dict(e)
    e["serves_properties"] = [p for p in ids if p in CLAIMS and CLAIMS[p]["engine"] == e["name"]]
    eng.append(e)
hooks_commits = []
hc = os.path.join(VERIF, "hooks_commits.txt")
if os.path.exists(hc):
    hooks_commits = [l.split()[0] for l in open(hc) if l.strip() and not l.startswith("#")]
m = {
    "version": 1,
    "setup_cmd": "python3 /verif/setup.py",
    "hooks": {
        "guard": "FDTDX_VERIF",
        "enable": "run.py sets FDTDX_VERIF=1 and puts /repo/src first on sys.path; hooks are evaluated at Python trace time and write to the file named by FDTDX_VERIF_TRACE",
        "baseline_off_cmd": "cd /repo && env -u FDTDX_VERIF /venv/bin/python -m pytest -ra -q -p no:cacheprovider --timeout=900 --continue-on-collection-errors",
        "source_commits": hooks_commits,
        "add_only": True,
    },
    "engines": eng,
    "checks": checks,
    "not_applicable": na,
    "notes": "All checks: TLA+ specification model-checked with TLC, bound to /repo/src by TLC trace validation of real executions. Exit 2 = machinery failure. Known findings: /verif/known_findings.json.",
}
json.dump(m, open(os.path.join(VERIF, "MANIFEST.json"), "w"), indent=1)
print(f"MANIFEST: {len(checks)} checks, {len(na)} not_applicable")
