#!/bin/bash
# usage: tools/seed_test.sh <PROPERTY_ID> <dir with patch.diff demo.py meta.json> [tier]
# Confirms a seeded regression (demo passes on original, fails on changed) and runs the property's check against
# a patched scratch copy of /repo/src (FDTDX_SRC override: equivalent to `git -C /repo apply`, but does not
# disturb other jobs that import /repo/src while this runs). Removes the scratch copy afterwards.
P=$1; DIR=$2; TIER=${3:-quick}
D=$(mktemp -d /tmp/seedt_XXXXXX)
mkdir -p $D/repo && cp -r /repo/src $D/repo/src
find $D/repo/src -name __pycache__ -prune -exec rm -rf {} + 2>/dev/null
( cd $D/repo && patch -p1 -s < $DIR/patch.diff ) || { echo "PATCH FAILED"; rm -rf $D; exit 3; }
echo -n "demo original: "; PYTHONPATH=/repo/src JAX_PLATFORMS=cpu /venv/bin/python $DIR/demo.py /repo/src >/dev/null 2>&1; echo "rc=$?"
echo -n "demo changed : "; PYTHONPATH=$D/repo/src JAX_PLATFORMS=cpu /venv/bin/python $DIR/demo.py $D/repo/src >/dev/null 2>&1; echo "rc=$?"
FDTDX_SRC=$D/repo/src /venv/bin/python /verif/run.py $P --tier $TIER 2>&1 | grep -E "VIOLATION|  case|MACHINERY|violations=" | head -6
echo "check rc=${PIPESTATUS[0]}"
rm -rf $D
git -C /verif checkout -- evidence/$P.json 2>/dev/null
