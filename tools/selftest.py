#!/venv/bin/python
"""Anti-vacuity self-test of the trace specs of the sched engine: a record observed from the real code is accepted;
the same record with ONE field corrupted or ONE hook event removed must be rejected (not part of the registered checks)."""
import copy, json, os, sys
VERIF = os.path.dirname(os.path.dirname(os.path.abspath(__file__)))
sys.path.insert(0, VERIF); sys.path.insert(0, os.environ.get("FDTDX_SRC", "/repo/src"))
os.environ.update(JAX_PLATFORMS="cpu", JAX_ENABLE_X64="1", FDTDX_VERIF="1")
from lib import tlc
from lib.common import Ctx

def verdict(spec, rec):
    v, _, _ = tlc.validate_traces(spec[0], spec[1], [rec])
    return v[rec["id"]]

fails = 0
def expect(name, spec, rec, ok):
    global fails
    v = verdict(spec, rec)
    good = (v == "ok") == ok
    print(("PASS" if good else "FAIL"), name, "->", v)
    fails += 0 if good else 1

# --- Trace_Recorder
from checks import C30
r = C30.observe({"id": "x", "T": 9, "k": 3, "start": 1, "pipe": ["everyk"]})
expect("recorder: genuine record", C30.TRACE, r, True)
c = copy.deepcopy(r); c["events"][-2]["vals"][0] += 840; expect("recorder: one decompressed value corrupted", C30.TRACE, c, False)
c = copy.deepcopy(r); c["events"][4]["slot"] = 0; expect("recorder: one slot corrupted", C30.TRACE, c, False)
# --- Trace_Schedule (hook events)
from checks import C04
case = [x for x in C04.gen_cases(Ctx("C04", "quick", 0)) if x["K"] == 1][0]
r = C04.observe(case)
expect("schedule: genuine reversible+checkpointed VJP trace", C04.TRACE, r, True)
def drop(rec, pred):
    c = copy.deepcopy(rec); i = next(i for i, e in enumerate(c["events"]) if pred(e)); del c["events"][i]; return c
expect("schedule: one primal fwd hook event removed", C04.TRACE, drop(r, lambda e: e["ev"] == "fwd" and e["t"] == 3 and e["rb"]), False)
expect("schedule: one bwd hook event removed", C04.TRACE, drop(r, lambda e: e["ev"] == "bwd" and e["t"] == 2), False)
c = copy.deepcopy(r); e = next(e for e in c["events"] if e["ev"] == "ckpt" and e["taken"]); e["taken"] = False
expect("schedule: checkpoint restore decision flipped", C04.TRACE, c, False)
c = copy.deepcopy(r); e = next(e for e in c["events"] if e["ev"] == "grad_end"); e["gerr"] = 5000
expect("schedule: gradient error above tolerance", C04.TRACE, c, False)
c = copy.deepcopy(r); e = [e for e in c["events"] if e["ev"] == "fwd" and not e["rb"]][2]; e["fpE"] += 1000
expect("schedule: reconstructed-state fingerprint corrupted", C04.TRACE, c, not c["cmp_fp"])
# --- Trace_Switch
from checks import C14
r = C14.observe({"id": "y", "kind": "list", "T": 6, "p": C14._p(st=4, et=12, interval=2)})
expect("switch: genuine on-list", C14.TRACE, r, True)
c = copy.deepcopy(r); c["on"][3] = not c["on"][3]; expect("switch: one on-list entry flipped", C14.TRACE, c, False)
# --- Trace_StopCond
os.environ["JAX_ENABLE_X64"] = "1"
from checks import C07
r = C07.observe({"id": "z", "kind": "call", "cond": "energy", "T": 8, "mn": 2, "mx": 6, "t": 4, "conv": False})
expect("stopcond: genuine call", C07.TRACE, r, True)
c = copy.deepcopy(r); c["cont"] = not c["cont"]; expect("stopcond: decision flipped", C07.TRACE, c, False)
print("selftest:", "OK" if fails == 0 else f"{fails} FAILED")
sys.exit(1 if fails else 0)
