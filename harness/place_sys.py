"""Shared harness of C26/C27: constraint systems as integer JSON <-> real fdtdx objects/constraints.

System format (integers only; axes and object indices are 1-based to match the TLA+ records, object 1 is the volume):
  {"ed":  [[edge coordinates in QUARTER units] x 3 axes],            # the RectilinearGrid handed to the code
   "objs":[{"gs":[..3], "rs":[..3], "rp":[..3]}, ...],              # partial_grid_shape / partial_real_shape / partial_real_position
                                                                     #   U = -1000 means "not given"; rs, rp in quarter units
   "cons":[{"t":"gc",  "o":i, "ax":[a..], "sd":[1|2..], "co":[index..]},
           {"t":"rc",  "o":i, "ax":[a..], "sd":[1|2..], "co":[quarter units..]},
           {"t":"pos", "o":i, "p":j, "ax":[a..], "ko":[0..4..], "kp":[0..4..], "m":[quarter units..], "gm":[cells..]},
           {"t":"size","o":i, "p":j, "ax":[a..], "oax":[a..], "pr":[proportion*4..], "off":[quarter units..], "goff":[cells..]},
           {"t":"ext", "o":i, "p":j|0, "a":a, "d":1|2, "kp":0..4, "off":quarter units, "goff":cells}]}
Anchor positions k in 0..4 stand for -1, -1/2, 0, 1/2, 1.  One unit = 1.0 m, so every real number is a dyadic
multiple of the cell width and the code's float comparisons (argmin ties) are exact."""
import itertools
import random

U = -1000


def obj_name(i):
    return "V" if i == 1 else "O%d" % i


def build(system, obj_order=None, con_order=None):
    """-> (objects list, constraints list, config) for the real code; orders are permutations (lists of 0-based positions)."""
    import numpy as np
    from fdtdx.config import SimulationConfig
    from fdtdx.core.grid import RectilinearGrid
    from fdtdx.materials import Material
    from fdtdx.objects.object import (
        GridCoordinateConstraint,
        PositionConstraint,
        RealCoordinateConstraint,
        SizeConstraint,
        SizeExtensionConstraint,
    )
    from fdtdx.objects.static_material.static import SimulationVolume, UniformMaterialObject

    ed = [np.asarray(e, dtype=np.float64) / 4.0 for e in system["ed"]]
    grid = RectilinearGrid(x_edges=ed[0], y_edges=ed[1], z_edges=ed[2])
    config = SimulationConfig(time=1e-12, grid=grid, backend="cpu")

    def opt(v, scale=None):
        return tuple(None if x == U else (x if scale is None else x / scale) for x in v)

    objs = []
    for i, o in enumerate(system["objs"], start=1):
        kw = dict(name=obj_name(i), partial_grid_shape=opt(o["gs"]), partial_real_shape=opt(o["rs"], 4.0), partial_real_position=opt(o["rp"], 4.0))
        if i == 1:
            objs.append(SimulationVolume(**kw))
        else:
            objs.append(UniformMaterialObject(material=Material(permittivity=2.0), **kw))
    cons = []
    for c in system["cons"]:
        t = c["t"]
        ax = tuple(a - 1 for a in c.get("ax", []))
        sides = tuple("-" if s == 1 else "+" for s in c.get("sd", []))
        if t == "gc":
            cons.append(GridCoordinateConstraint(object=obj_name(c["o"]), axes=ax, sides=sides, coordinates=tuple(c["co"])))
        elif t == "rc":
            cons.append(RealCoordinateConstraint(object=obj_name(c["o"]), axes=ax, sides=sides, coordinates=tuple(x / 4.0 for x in c["co"])))
        elif t == "pos":
            cons.append(PositionConstraint(object=obj_name(c["o"]), other_object=obj_name(c["p"]), axes=ax,
                                           object_positions=tuple(k / 2.0 - 1.0 for k in c["ko"]), other_object_positions=tuple(k / 2.0 - 1.0 for k in c["kp"]),
                                           margins=tuple(m / 4.0 for m in c["m"]), grid_margins=tuple(c["gm"])))
        elif t == "size":
            cons.append(SizeConstraint(object=obj_name(c["o"]), other_object=obj_name(c["p"]), axes=ax, other_axes=tuple(a - 1 for a in c["oax"]),
                                       proportions=tuple(p / 4.0 for p in c["pr"]), offsets=tuple(x / 4.0 for x in c["off"]), grid_offsets=tuple(c["goff"])))
        elif t == "ext":
            cons.append(SizeExtensionConstraint(object=obj_name(c["o"]), other_object=(obj_name(c["p"]) if c["p"] else None), axis=c["a"] - 1,
                                                direction="-" if c["d"] == 1 else "+", other_position=c["kp"] / 2.0 - 1.0, offset=c["off"] / 4.0, grid_offset=c["goff"]))
        else:
            raise ValueError(t)
    if obj_order is not None:
        objs = [objs[i] for i in obj_order]
    if con_order is not None:
        cons = [cons[i] for i in con_order]
    return objs, cons, config


def solve(system, obj_order=None, con_order=None):
    """Run the REAL solver.  -> {"ok": bool, "sl": [[[b0,b1] x3] per object in system order], "raised": bool}"""
    from fdtdx.fdtd.initialization import resolve_object_constraints

    objs, cons, config = build(system, obj_order, con_order)
    n = len(system["objs"])
    try:
        slices, errors = resolve_object_constraints(objs, cons, config)
    except Exception:
        return {"ok": False, "raised": True, "sl": [[[U, U]] * 3] * n}
    ok = not any(errors.get(obj_name(i)) for i in range(1, n + 1))
    sl = []
    for i in range(1, n + 1):
        s = slices[obj_name(i)]
        sl.append([[U if s[a][0] is None else int(s[a][0]), U if s[a][1] is None else int(s[a][1])] for a in range(3)])
    return {"ok": bool(ok), "raised": False, "sl": sl}


def permutations_for(system, rng, k):
    """identity + reversed + up to k-2 seeded random permutations of the object list and of the constraint list"""
    no, nc = len(system["objs"]), len(system["cons"])
    out = [(list(range(no)), list(range(nc))), (list(range(no))[::-1], list(range(nc))[::-1])]
    if nc <= 3 and no <= 3:
        allp = [(list(po), list(pc)) for po in itertools.permutations(range(no)) for pc in itertools.permutations(range(nc))]
        rng.shuffle(allp)
        for p in allp:
            if p not in out and len(out) < k:
                out.append(p)
        return out
    tries = 0
    while len(out) < k and tries < 50:
        tries += 1
        po, pc = list(range(no)), list(range(nc))
        rng.shuffle(po), rng.shuffle(pc)
        if (po, pc) not in out:
            out.append((po, pc))
    return out


# ----------------------------------------------------------------------------------------------------------
# Finite catalogue shared by TLC (spec/Place_catalogue_*.json, read by Place.tla) and by the conformance enumeration.
def _spec(na, gs=U, rs=U, rp=U, axis=1):
    d = {"gs": [U] * na, "rs": [U] * na, "rp": [U] * na}
    d["gs"][axis - 1], d["rs"][axis - 1], d["rp"][axis - 1] = gs, rs, rp
    return d


def catalogue(name):
    """name: 'q' (1 axis of 6 cells, objects 2,3), 't' (2 axes 6x4, cross-axis size constraints), 'neg' (4 objects, tiny),
    'neg2' (static position + position constraint + size constraint, tiny)"""
    n1 = 6
    if name == "x":
        # cross-axis size constraints: the reference (object 3 or the volume) has DIFFERENT extents on the two axes and the
        # solver must read the reference's slice on `other_axes`, in both directions 1->2 and 2->1, with proportions and offsets
        n2 = 4
        ed = [[4 * i - 2 * n1 for i in range(n1 + 1)], [4 * i - 2 * n2 for i in range(n2 + 1)]]
        vol = {"gs": [n1, n2], "rs": [U, U], "rp": [U, U]}
        specs = [
            [{"gs": [U, U], "rs": [U, U], "rp": [U, U]}, {"gs": [U, U], "rs": [U, U], "rp": [0, 0]}, {"gs": [U, 2], "rs": [U, U], "rp": [U, U]}],
            [{"gs": [3, 1], "rs": [U, U], "rp": [2, -2]}, {"gs": [2, 3], "rs": [U, U], "rp": [U, U]}, {"gs": [U, 1], "rs": [16, U], "rp": [U, 4]}],
        ]
        cat = []
        for p in (3, 1):
            cat += [
                {"t": "size", "o": 2, "p": p, "ax": [1], "oax": [2], "pr": [4], "off": [0], "goff": [0]},
                {"t": "size", "o": 2, "p": p, "ax": [2], "oax": [1], "pr": [4], "off": [0], "goff": [0]},
                {"t": "size", "o": 2, "p": p, "ax": [1], "oax": [2], "pr": [8], "off": [-4], "goff": [0]},
                {"t": "size", "o": 2, "p": p, "ax": [2], "oax": [1], "pr": [2], "off": [2], "goff": [1]},
                {"t": "size", "o": 2, "p": p, "ax": [1, 2], "oax": [2, 1], "pr": [4, 2], "off": [4, 0], "goff": [0, 0]},
            ]
        cat += [
            {"t": "pos", "o": 2, "p": 1, "ax": [1, 2], "ko": [2, 2], "kp": [2, 2], "m": [0, 0], "gm": [0, 0]},
            {"t": "pos", "o": 2, "p": 3, "ax": [1], "ko": [0], "kp": [4], "m": [0], "gm": [0]},
            {"t": "gc", "o": 2, "ax": [1, 2], "sd": [1, 1], "co": [1, 0]},
            {"t": "ext", "o": 2, "p": 0, "a": 2, "d": 2, "kp": 0, "off": 0, "goff": 0},
            {"t": "size", "o": 3, "p": 2, "ax": [2], "oax": [1], "pr": [4], "off": [0], "goff": [0]},
        ]
        for i, c in enumerate(cat, start=1):
            c["id"] = i
        return {"ed": ed, "vol": vol, "specs": specs, "cat": cat}
    if name == "neg2":
        full = catalogue("q")
        def pick(**kw):
            return next(dict(c) for c in full["cat"] if all(c.get(k) == v for k, v in kw.items()))
        cat = [pick(t="pos", o=2, p=1, ko=[2]), pick(t="size", o=2, p=3, pr=[4]), pick(t="gc", o=2, sd=[1]), pick(t="size", o=2, p=1, pr=[2], goff=[0])]
        for i, c in enumerate(cat, start=1):
            c["id"] = i
        return {"ed": full["ed"], "vol": full["vol"], "specs": [[full["specs"][0][4]], [full["specs"][1][2]]], "cat": cat}
    if name == "neg":
        ed = [[4 * i - 2 * n1 for i in range(n1 + 1)]]
        specs = [[_spec(1, gs=2)], [_spec(1, gs=2)], [_spec(1, gs=2)]]
        cat = [
            {"t": "pos", "o": 2, "p": 3, "ax": [1], "ko": [0], "kp": [4], "m": [0], "gm": [0]},
            {"t": "gc", "o": 2, "ax": [1], "sd": [1], "co": [0]},
            {"t": "pos", "o": 3, "p": 4, "ax": [1], "ko": [0], "kp": [4], "m": [0], "gm": [0]},
            {"t": "pos", "o": 4, "p": 1, "ax": [1], "ko": [0], "kp": [0], "m": [0], "gm": [0]},
        ]
        vol = {"gs": [n1], "rs": [U], "rp": [U]}
    else:
        na = 1 if name == "q" else 2
        n2 = 4
        ed = [[4 * i - 2 * n1 for i in range(n1 + 1)]] + ([[4 * i - 2 * n2 for i in range(n2 + 1)]] if na == 2 else [])
        vol = {"gs": [n1, n2][:na], "rs": [U] * na, "rp": [U] * na}
        specs = [
            [_spec(na), _spec(na, gs=2), _spec(na, rs=10), _spec(na, gs=2, rp=0), _spec(na, rp=5)],
            [_spec(na), _spec(na, gs=3), _spec(na, gs=1, rp=-9)],
        ]
        if na == 2:  # a second-axis variant for each object
            specs[0] += [{"gs": [2, 1], "rs": [U, U], "rp": [U, 2]}]
            specs[1] += [{"gs": [U, U], "rs": [U, 6], "rp": [U, U]}]
        cat = []
        for o in (2, 3):
            cat += [
                {"t": "gc", "o": o, "ax": [1], "sd": [1], "co": [1]},
                {"t": "gc", "o": o, "ax": [1], "sd": [2], "co": [5]},
                {"t": "gc", "o": o, "ax": [1], "sd": [2], "co": [4]},
                {"t": "rc", "o": o, "ax": [1], "sd": [1], "co": [-6]},
                {"t": "rc", "o": o, "ax": [1], "sd": [2], "co": [3]},
                {"t": "ext", "o": o, "p": 0, "a": 1, "d": 2, "kp": 0, "off": 0, "goff": 0},
                {"t": "ext", "o": o, "p": 0, "a": 1, "d": 1, "kp": 0, "off": 0, "goff": 0},
                {"t": "pos", "o": o, "p": 1, "ax": [1], "ko": [2], "kp": [2], "m": [0], "gm": [0]},
                {"t": "pos", "o": o, "p": 1, "ax": [1], "ko": [0], "kp": [0], "m": [4], "gm": [0]},
                {"t": "pos", "o": o, "p": 1, "ax": [1], "ko": [4], "kp": [4], "m": [0], "gm": [-1]},
                {"t": "size", "o": o, "p": 1, "ax": [1], "oax": [1], "pr": [2], "off": [0], "goff": [0]},
                {"t": "size", "o": o, "p": 1, "ax": [1], "oax": [1], "pr": [4], "off": [-8], "goff": [0]},
                # real AND grid offsets on the same axis (they add up)
                {"t": "pos", "o": o, "p": 1, "ax": [1], "ko": [0], "kp": [0], "m": [4], "gm": [1]},
                {"t": "size", "o": o, "p": 1, "ax": [1], "oax": [1], "pr": [2], "off": [2], "goff": [-1]},
            ]
        for o, p in ((2, 3), (3, 2)):
            cat += [
                {"t": "pos", "o": o, "p": p, "ax": [1], "ko": [0], "kp": [4], "m": [0], "gm": [0]},
                {"t": "pos", "o": o, "p": p, "ax": [1], "ko": [4], "kp": [0], "m": [-2], "gm": [0]},
                {"t": "pos", "o": o, "p": p, "ax": [1], "ko": [2], "kp": [2], "m": [0], "gm": [0]},
                {"t": "size", "o": o, "p": p, "ax": [1], "oax": [1], "pr": [4], "off": [0], "goff": [0]},
                {"t": "size", "o": o, "p": p, "ax": [1], "oax": [1], "pr": [2], "off": [2], "goff": [0]},
                {"t": "ext", "o": o, "p": p, "a": 1, "d": 2, "kp": 0, "off": 0, "goff": 0},
                {"t": "ext", "o": o, "p": p, "a": 1, "d": 1, "kp": 4, "off": 6, "goff": 0},
                # real AND grid offsets on the same axis
                {"t": "pos", "o": o, "p": p, "ax": [1], "ko": [0], "kp": [4], "m": [-2], "gm": [1]},
                {"t": "ext", "o": o, "p": p, "a": 1, "d": 2, "kp": 0, "off": -2, "goff": 2},
            ]
        if na == 2:
            for o, p in ((2, 3), (3, 2), (2, 1)):
                cat += [
                    {"t": "size", "o": o, "p": p, "ax": [2], "oax": [1], "pr": [4], "off": [0], "goff": [0]},      # cross-axis
                    {"t": "size", "o": o, "p": p, "ax": [1, 2], "oax": [2, 1], "pr": [4, 2], "off": [0, 0], "goff": [0, 1]},
                    {"t": "pos", "o": o, "p": p, "ax": [1, 2], "ko": [2, 0], "kp": [2, 4], "m": [0, 0], "gm": [0, 0]},
                    {"t": "pos", "o": o, "p": p, "ax": [2, 1], "ko": [0, 4], "kp": [0, 4], "m": [4, -4], "gm": [-1, 1]},
                ]
            for o in (2, 3):
                cat += [
                    {"t": "gc", "o": o, "ax": [2, 1], "sd": [1, 1], "co": [1, 2]},
                    {"t": "rc", "o": o, "ax": [2], "sd": [2], "co": [5]},
                    {"t": "ext", "o": o, "p": 0, "a": 2, "d": 1, "kp": 0, "off": 0, "goff": 0},
                ]
    for i, c in enumerate(cat, start=1):
        c["id"] = i
    return {"ed": ed, "vol": vol, "specs": specs, "cat": cat}


def pad3(system):
    """extend a 1- or 2-axis system of the catalogue to the 3 axes of the real code (extra axes: one cell, nothing said)"""
    na = len(system["ed"])
    ed = [list(e) for e in system["ed"]] + [[0, 4]] * (3 - na)
    objs = []
    for i, o in enumerate(system["objs"]):
        objs.append({k: list(o[k]) + ([1] if (i == 0 and k == "gs") else [U]) * (3 - na) for k in ("gs", "rs", "rp")})
    return {"ed": ed, "objs": objs, "cons": [dict(c) for c in system["cons"]]}


def enumerate_systems(cat, max_cons):
    nc = len(cat["cat"])
    for choice in itertools.product(*[range(len(s)) for s in cat["specs"]]):
        objs = [cat["vol"]] + [cat["specs"][i][j] for i, j in enumerate(choice)]
        for k in range(0, max_cons + 1):
            for idx in itertools.combinations(range(nc), k):
                yield "s" + "".join(map(str, choice)) + "-c" + ".".join(str(i + 1) for i in idx), {"ed": cat["ed"], "objs": objs, "cons": [cat["cat"][i] for i in idx]}


def write_catalogues(spec_dir):
    import json
    import os

    for name in ("q", "t", "x", "neg", "neg2"):
        with open(os.path.join(spec_dir, "Place_catalogue_%s.json" % name), "w") as f:
            json.dump(catalogue(name), f, separators=(",", ":"))


if __name__ == "__main__":
    import os

    write_catalogues(os.path.join(os.path.dirname(os.path.dirname(os.path.abspath(__file__))), "spec"))


# ----------------------------------------------------------------------------------------------------------
# check-module plumbing shared by checks/C26.py and checks/C27.py
CODE_FLAGS = {"eb": False, "sk": False}  # the trace spec's own run models the code as it is (both defects fixed in /repo 62bc410)

# minimal systems for the two order/soundness defects found with the model (kept as seeded regression inputs)
def regression_systems():
    n1 = 6
    ed = [[4 * i - 2 * n1 for i in range(n1 + 1)]]
    g2 = {"gs": [2], "rs": [U], "rp": [U]}
    early = {"ed": ed, "objs": [{"gs": [n1], "rs": [U], "rp": [U]}, g2, g2, g2], "cons": [
        {"t": "pos", "o": 2, "p": 3, "ax": [1], "ko": [0], "kp": [4], "m": [0], "gm": [0]},
        {"t": "gc", "o": 2, "ax": [1], "sd": [1], "co": [0]},
        {"t": "pos", "o": 3, "p": 4, "ax": [1], "ko": [0], "kp": [4], "m": [0], "gm": [0]}]}
    cat = catalogue("q")
    skip = {"ed": cat["ed"], "objs": [cat["vol"], cat["specs"][0][4], cat["specs"][1][2]], "cons": [c for c in cat["cat"] if (c["t"], c["o"], c["p"] if "p" in c else 0) in (("pos", 2, 1), ("size", 2, 3)) and c.get("ko", [2]) == [2] and c.get("pr", [4]) == [4] and c.get("gm", [0]) == [0]]}
    return [("reg-earlybreak", early), ("reg-staticpos", skip)]


def random_system(rng):
    """seeded random system with 3..8 objects on two axes (8 x 6 cells), uniform or stretched grid"""
    stretched = rng.random() < 0.3
    def axis(n):
        w = [rng.choice([1, 2]) if stretched else 1 for _ in range(n)]
        tot = sum(w)
        e = [-2 * tot]
        for x in w:
            e.append(e[-1] + 4 * x)
        return e
    ed = [axis(8), axis(6)]
    nobj = rng.randint(3, 8)
    objs = [{"gs": [8, 6], "rs": [U, U], "rp": [U, U]}]
    cons = []
    for o in range(2, nobj + 1):
        sp = {"gs": [U, U], "rs": [U, U], "rp": [U, U]}
        for a in (1, 2):
            r = rng.random()
            if r < 0.35:
                sp["gs"][a - 1] = rng.choice([1, 2, 3])
            elif r < 0.5:
                sp["rs"][a - 1] = rng.choice([4, 6, 8, 10])
            if rng.random() < 0.12:
                sp["rp"][a - 1] = rng.choice([-6, -4, 0, 2, 5])
        objs.append(sp)
        for _ in range(rng.choice([0, 1, 1, 2, 2, 3])):
            p = rng.randint(1, o - 1) if rng.random() < 0.85 else rng.randint(1, nobj)
            if p == o:
                p = 1
            a = rng.choice([1, 2])
            t = rng.choice(["pos", "pos", "size", "ext", "gc", "rc"])
            if t == "gc" and stretched and rng.random() < 0.8:
                t = "rc"
            if t == "pos":
                cons.append({"t": "pos", "o": o, "p": p, "ax": [a], "ko": [rng.choice([0, 2, 4, 1])], "kp": [rng.choice([0, 2, 4, 3])],
                             "m": [rng.choice([0, 0, 2, -4, 4])], "gm": [0 if stretched else rng.choice([0, 0, 1, -1])]})
            elif t == "size":
                cons.append({"t": "size", "o": o, "p": p, "ax": [a], "oax": [rng.choice([a, 3 - a])], "pr": [rng.choice([4, 2, 4, 1, 8])],
                             "off": [rng.choice([0, 0, -4, 2])], "goff": [0 if stretched else rng.choice([0, 0, -1])]})
            elif t == "ext":
                cons.append({"t": "ext", "o": o, "p": rng.choice([0, p]), "a": a, "d": rng.choice([1, 2]), "kp": rng.choice([0, 4, 2]), "off": rng.choice([0, 0, 2, -4]), "goff": 0 if stretched else rng.choice([0, 0, 1, -1])})
            elif t == "gc":
                cons.append({"t": "gc", "o": o, "ax": [a], "sd": [rng.choice([1, 2])], "co": [rng.randint(0, 6)]})
            else:
                cons.append({"t": "rc", "o": o, "ax": [a], "sd": [rng.choice([1, 2])], "co": [rng.randint(-14, 14)]})
    return {"ed": ed, "objs": objs, "cons": cons}


def _has_both(c):
    """a constraint whose real and grid offsets are both non-zero on one axis (the code adds them)"""
    if c["t"] == "pos":
        return any(m and g for m, g in zip(c["m"], c["gm"]))
    if c["t"] == "size":
        return any(m and g for m, g in zip(c["off"], c["goff"]))
    if c["t"] == "ext":
        return bool(c["off"] and c["goff"])
    return False


def gen_cases(ctx, want):
    """same inputs for C26 and C27 (own seed stream): enumerated catalogue systems + regression + seeded random"""
    rng = random.Random(ctx.seed * 7919 + 11)
    cat = catalogue("q")
    out = []
    nperm = 4 if ctx.quick else 6
    keep2 = 0.03 if ctx.quick else 1.0
    for sid, s in enumerate_systems(cat, 2):
        k = len(s["cons"])
        both = any(_has_both(c) for c in s["cons"])
        drop = (k == 2 and rng.random() > (0.06 if (both and ctx.quick) else keep2)) or (ctx.quick and k == 1 and not both and rng.random() > 0.5)
        if drop:
            continue
        out.append(("q-" + sid, s))
    catx = catalogue("x")
    for sid, s in enumerate_systems(catx, 2):
        if ctx.quick and len(s["cons"]) == 2 and rng.random() > 0.2:
            continue
        out.append(("x-" + sid, s))
    if not ctx.quick:
        catt = catalogue("t")
        for sid, s in enumerate_systems(catt, 2):
            if len(s["cons"]) < 2 or rng.random() < 0.15:
                out.append(("t-" + sid, s))
    n3 = 150 if ctx.quick else 3000
    idx = list(range(len(cat["cat"])))
    for i in range(n3):
        choice = [rng.randrange(len(sp)) for sp in cat["specs"]]
        cs = sorted(rng.sample(idx, 3))
        out.append(("q3-%d" % i, {"ed": cat["ed"], "objs": [cat["vol"]] + [cat["specs"][j][c] for j, c in enumerate(choice)], "cons": [cat["cat"][j] for j in cs]}))
    out += regression_systems()
    for i in range(120 if ctx.quick else 2000):
        out.append(("rnd-%d" % i, random_system(rng)))
    ctx.exhaustive = False
    cases = []
    for cid, s in out:
        s3 = pad3(s)
        perms = permutations_for(s3, random.Random(rng.randrange(1 << 30)), nperm)
        cases.append({"id": cid, "want": want, "sys": s3, "perms": [[list(po), list(pc)] for po, pc in perms]})
    return cases


_CFG_CACHE = {}


def observe(case):
    s = case["sys"]
    runs = []
    for po, pc in case["perms"]:
        r = solve(s, po, pc)
        runs.append({"ok": r["ok"], "sl": r["sl"], "raised": r["raised"]})
    sysr = dict(s)
    sysr["fl"] = CODE_FLAGS
    for c in sysr["cons"]:
        c.setdefault("id", 0)
    oks = [r["ok"] for r in runs]
    return {"id": case["id"], "want": case["want"], "sys": sysr, "runs": runs, "perms": case["perms"],
            "nobj": len(s["objs"]), "ncon": len(s["cons"]), "all_ok": all(oks), "any_ok": any(oks),
            "has_rp": any(x != U for o in s["objs"] for x in o["rp"])}


def classify(record, verdict):
    if verdict.startswith("malformed:"):
        return "malformed"
    if verdict.startswith("drift:"):
        return "drift"
    return "violation"


def model_check(ctx):
    if ctx.quick:
        ctx.mc("Place", "MC_Place_q.cfg", label="all systems volume(6 cells)+2 objects without static specs, <=2 constraints of 46: scheduled run + all per-iteration constraint orders")
        ctx.mc("Place", "MC_Place_qx.cfg", label="2 axes 6x4: cross-axis size constraints (both directions, proportions, offsets) on references with different extents, 4 static-spec combinations x <=2 constraints of 15")
        ctx.mc("Place", "MC_Place_q1.cfg", label="all 15 static-spec combinations (grid/real shape, real position) x <=1 constraint of 46")
    else:
        ctx.mc("Place", "MC_Place_tx.cfg", label="2 axes 6x4: cross-axis size constraints on references with different extents, 9 static-spec combinations x <=2 constraints of 15")
        ctx.mc("Place", "MC_Place_t.cfg", label="1 axis, all 15 static-spec combinations, <=2 constraints of 46")
        ctx.mc("Place", "MC_Place_t2.cfg", label="2 axes 6x4 incl. cross-axis size and 2-axis constraints, <=2 constraints of 64")
        ctx.mc("Place", "MC_Place_t3.cfg", label="1 axis, 4 static-spec combinations, <=3 constraints of 46")
    ctx.mc_negative("Place", "MC_Place_neg.cfg")    # code's early loop exit: Soundness/Confluence fail (4 objects)
    ctx.mc_negative("Place", "MC_Place_neg2.cfg")   # code's skipping of static positions on resolved axes: Confluence fails
    ctx.assumptions += [
        "lengths are multiples of 1/4 cell of a 1.0 m (or 1,2 m stretched) grid: the code's float ties are exact",
        "errors are never cleared by the solver, so 'failed' is absorbing in the model; slices are compared only between successful runs",
        "the model's negative values / out-of-range indices are errors (the code rejects such objects in its closing bounds check)",
        "partial_real_position / partial_*_shape are not among the constraint kinds C26 names; they enter only through the model's own run (drift)",
    ]


def run(ctx, want):
    """default pipeline of run.py with two changes: 4 instead of 8 concurrent trace-validation JVMs, and ONE retry of the
    validation stage if TLC itself dies (observed once as rc=255 while 50 other jobs were running; a machinery failure is
    never a verdict, the retry only avoids a spurious exit 2)."""
    import json

    from lib.tlc import MachineryError

    model_check(ctx)
    inputs = list(gen_cases(ctx, want))
    recs = [observe(c) for c in inputs]
    for r in recs[:2]:
        ctx.sample(r)
    ctx.nontrivial = len({json.dumps(c["sys"], sort_keys=True) for c in inputs})
    by_id = {c["id"]: c for c in inputs}
    for attempt in (1, 2):
        try:
            ctx.validate("Trace_Place", "Trace_Place.cfg", recs, by_id, classify=classify, chunk=150, parallel=4)
            break
        except MachineryError as e:
            if attempt == 2 or "TLC failed" not in str(e):
                raise
            ctx.notes.append("trace validation retried once after a TLC process failure")
            ctx.violations.clear(), ctx.drift.clear(), ctx.known_hits.clear()
