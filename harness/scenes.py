"""Scene builder through the PUBLIC fdtdx pipeline (place_objects -> apply_params), shared by the checks.

A scene is described by a JSON-able dict:
  shape      [nx,ny,nz] cells            T  total time steps
  res        cell size (m)               cf courant factor
  bounds     {"min_x": "pml"|"periodic"|"pec"|"pmc", ...} (missing faces: "periodic"), pml thickness `pml`
  sources    [{"kind":"dipole"|"mdipole","pos":[i,j,k],"pol":0..2,"switch":{...}, "amp":1.0,"wl":800e-9}]
  detectors  [{"kind":"energy"|"field"|"poynting"|"phasor","name":..,"lo":[..],"hi":[..],"switch":{...}, ...}]
  slab       {"lo":[..],"hi":[..],"eps":2.0,"sigma":0.0,"mu":1.0} optional
  complex    force complex fields        dtype "f64"|"f32"
"""
from __future__ import annotations

FACES = ("min_x", "max_x", "min_y", "max_y", "min_z", "max_z")


def make_switch(sw: dict | None):
    import fdtdx

    if not sw:
        return fdtdx.OnOffSwitch()
    return fdtdx.OnOffSwitch(**sw)


def build_scene(sc: dict):
    import jax
    import jax.numpy as jnp

    import fdtdx
    from fdtdx.constants import c as c0

    res = sc.get("res", 50e-9)
    cf = sc.get("cf", 0.99)
    T = sc["T"]
    dtype = jnp.float64 if sc.get("dtype", "f64") == "f64" else jnp.float32
    cfg0 = fdtdx.SimulationConfig(time=1e-15, grid=fdtdx.UniformGrid(spacing=res), backend="cpu", dtype=dtype, courant_factor=cf)
    dt = cfg0.time_step_duration
    config = fdtdx.SimulationConfig(
        time=(T + 0.25) * dt,
        grid=fdtdx.UniformGrid(spacing=res),
        backend="cpu",
        dtype=dtype,
        courant_factor=cf,
        gradient_config=None,
        use_complex_fields=True if sc.get("complex") else None,
    )
    assert config.time_steps_total == T, (config.time_steps_total, T)
    objects, constraints = [], []
    volume = fdtdx.SimulationVolume(partial_grid_shape=tuple(sc["shape"]))
    objects.append(volume)
    bounds = {f: sc.get("bounds", {}).get(f, "periodic") for f in FACES}
    bcfg = fdtdx.BoundaryConfig.from_uniform_bound(thickness=sc.get("pml", 4), override_types={f: b for f, b in bounds.items() if b != "pml"})
    bdict, clist = fdtdx.boundary_objects_from_config(bcfg, volume)
    objects.extend(bdict.values())
    constraints.extend(clist)
    if sc.get("slab"):
        sl = sc["slab"]
        disp = None
        if sl.get("lorentz"):
            lz = sl["lorentz"]  # {"f": resonance_frequency, "g": damping, "de": delta_epsilon}
            disp = fdtdx.DispersionModel(poles=(fdtdx.LorentzPole(resonance_frequency=lz["f"], damping=lz["g"], delta_epsilon=lz["de"]),))
        mat = fdtdx.Material(permittivity=sl.get("eps", 2.0), permeability=sl.get("mu", 1.0), electric_conductivity=sl.get("sigma", 0.0), magnetic_conductivity=sl.get("sigma_m", 0.0), dispersion=disp)
        shape = tuple(h - l for l, h in zip(sl["lo"], sl["hi"]))
        slab = fdtdx.UniformMaterialObject(name="slab", partial_grid_shape=shape, material=mat)
        constraints.append(slab.set_grid_coordinates(axes=(0, 1, 2), sides=("-", "-", "-"), coordinates=tuple(sl["lo"])))
        objects.append(slab)
    for n, s in enumerate(sc.get("sources", [])):
        wc = fdtdx.WaveCharacter(wavelength=s.get("wl", 800e-9))
        kw = dict(name=s.get("name", f"src{n}"), partial_grid_shape=(1, 1, 1), wave_character=wc, polarization=s.get("pol", 0), amplitude=s.get("amp", 1.0), switch=make_switch(s.get("switch")))
        if s.get("kind", "dipole") == "plane":
            # uniform plane source normal to axis `axis` at index pos[axis], spanning the whole cross-section
            a = s.get("axis", 2)
            shape = list(sc["shape"])
            shape[a] = 1
            lo = [0, 0, 0]
            lo[a] = s["pos"][a]
            src = fdtdx.UniformPlaneSource(name=kw["name"], partial_grid_shape=tuple(shape), wave_character=wc, direction=s.get("dir", "+"),
                                           fixed_E_polarization_vector=tuple(float(x) for x in s.get("epol", (1, 0, 0) if a != 0 else (0, 1, 0))),
                                           amplitude=s.get("amp", 1.0), switch=kw["switch"])
            constraints.append(src.set_grid_coordinates(axes=(0, 1, 2), sides=("-", "-", "-"), coordinates=tuple(lo)))
            objects.append(src)
            continue
        if s.get("kind", "dipole") == "mdipole":
            kw["source_type"] = "magnetic"
        src = fdtdx.PointDipoleSource(**kw)
        constraints.append(src.set_grid_coordinates(axes=(0, 1, 2), sides=("-", "-", "-"), coordinates=tuple(s["pos"])))
        objects.append(src)
    for n, d in enumerate(sc.get("detectors", [])):
        shape = tuple(h - l for l, h in zip(d["lo"], d["hi"]))
        kw = dict(name=d.get("name", f"det{n}"), partial_grid_shape=shape, switch=make_switch(d.get("switch")), plot=False)
        k = d["kind"]
        if k == "energy":
            det = fdtdx.EnergyDetector(**kw, as_slices=False, reduce_volume=d.get("reduce", False))
        elif k == "field":
            det = fdtdx.FieldDetector(**kw, reduce_volume=d.get("reduce", False), exact_interpolation=d.get("exact", True))
        elif k == "poynting":
            det = fdtdx.PoyntingFluxDetector(**kw, direction=d.get("dir", "+"), fixed_propagation_axis=d.get("axis", 2), exact_interpolation=d.get("exact", True))
        elif k == "phasor":
            det = fdtdx.PhasorDetector(**kw, wave_characters=(fdtdx.WaveCharacter(wavelength=d.get("wl", 800e-9)),), reduce_volume=d.get("reduce", False))
        else:
            raise ValueError(k)
        constraints.append(det.set_grid_coordinates(axes=(0, 1, 2), sides=("-", "-", "-"), coordinates=tuple(d["lo"])))
        objects.append(det)
    key = jax.random.PRNGKey(sc.get("key", 0))
    obj, arrays, params, config, _ = fdtdx.place_objects(object_list=objects, config=config, constraints=constraints, key=key)
    arrays, obj, _ = fdtdx.apply_params(arrays, obj, params, key)
    return obj, arrays, config


def attach_gradient(arrays, config, obj, method, num_checkpoints=4, num_checkpoints_reversible=0, recorder_modules=()):
    """Attach gradient_config (+ recording state for the absorbing-layer interfaces)."""
    import jax

    from fdtdx.config import GradientConfig
    from fdtdx.interfaces.recorder import Recorder

    if method is None:
        return arrays, config.aset("gradient_config", None)
    shapes = {}
    fdt = arrays.fields.E.dtype
    for b in obj.pml_objects:
        sh = (3, *b.interface_grid_shape())
        shapes[f"{b.name}_E"] = jax.ShapeDtypeStruct(shape=sh, dtype=fdt)
        shapes[f"{b.name}_H"] = jax.ShapeDtypeStruct(shape=sh, dtype=fdt)
    rec = Recorder(modules=list(recorder_modules))
    rec, rstate = rec.init_state(input_shape_dtypes=shapes, max_time_steps=config.time_steps_total, backend="cpu")
    if method == "reversible":
        g = GradientConfig(method="reversible", recorder=rec, num_checkpoints_reversible=num_checkpoints_reversible)
    else:
        g = GradientConfig(method="checkpointed", num_checkpoints=num_checkpoints)
    config = config.aset("gradient_config", g)
    if method == "reversible":
        arrays = arrays.aset("recording_state", rstate)
    return arrays, config


def with_inv_eps(arrays, inv_eps):
    from fdtdx.fdtd.container import ArrayContainer, FieldState

    return ArrayContainer(
        fields=FieldState(E=arrays.fields.E, H=arrays.fields.H, psi_E=arrays.fields.psi_E, psi_H=arrays.fields.psi_H),
        inv_permittivities=inv_eps,
        inv_permeabilities=arrays.inv_permeabilities,
        detector_states=arrays.detector_states,
        recording_state=arrays.recording_state,
        electric_conductivity=arrays.electric_conductivity,
        magnetic_conductivity=arrays.magnetic_conductivity,
    )


def take_events():
    import jax

    from fdtdx.core import verif_hooks

    jax.effects_barrier()
    ev = list(verif_hooks.EVENTS)
    verif_hooks.EVENTS.clear()
    return ev
