"""Shared harness of the Yee-step checks (C01 energy, C02 one-step inverse, C10 linearity, C11 complex == real).

A *configuration* is a JSON-able dict (same vocabulary as spec/Yee.tla):
  shape   [nx,ny,nz]
  kinds   [kx,ky,kz]   axis kinds 1..13: 1 periodic, 2..4 Bloch phase i,-1,-i, 5+3*lo+hi with lo,hi in 0 halo|1 PEC|2 PMC
  ie2,im2 flat lists (C order of (3,nx,ny,nz)) of 2*inverse permittivity / permeability, or None (vacuum = 2)
          "fie","fim": flat float lists instead (random float scenes)
  loss    flat 0/1 list: conductive entries with c*sigma*eta0*inv_eps/2 = 1/3 ; "fsig": flat float list of sigma*eta0
  w       [[..],[..],[..]] cell widths in units of the resolution, or None (uniform)
  T       run length            complex  force complex fields
  sources / detectors: as in harness.scenes (plus "kind":"plane"/"gauss" TFSF sources)
Scenes are built through the public pipeline (place_objects -> apply_params); material arrays are then replaced by
the configuration's own arrays and the wall objects of "halo" faces are removed from the object container.
"""
from __future__ import annotations

import math

import numpy as np

RES = 50e-9
CF = 0.5 * 3**0.5
FACES = ("min_x", "max_x", "min_y", "max_y", "min_z", "max_z")


# ------------------------------------------------------------------ configuration vocabulary
def kind_info(k):
    if k <= 4:
        return dict(wrap=True, ph=k - 1, lo=0, hi=0)
    return dict(wrap=False, ph=0, lo=(k - 5) // 3, hi=(k - 5) % 3)


def spec_fields(cfg):
    """the configuration in the vocabulary of YeeDefs.tla (all integers / booleans)"""
    n = 3 * int(np.prod(cfg["shape"]))
    ki = [kind_info(k) for k in cfg["kinds"]]
    return {
        "N": list(cfg["shape"]),
        "wrap": [x["wrap"] for x in ki],
        "ph": [x["ph"] for x in ki],
        "pec": [[x["lo"] == 1, x["hi"] == 1] for x in ki],
        "pmc": [[x["lo"] == 2, x["hi"] == 2] for x in ki],
        "ie2": list(cfg.get("ie2") or [2] * n),
        "im2": list(cfg.get("im2") or [2] * n),
        "loss": list(cfg.get("loss") or [0] * n),
        "w": [list(x) for x in (cfg.get("w") or [[1] * s for s in cfg["shape"]])],
    }


def pattern_cfg(shape, kinds, mat=1, loss=0, wp=0, **kw):
    """the material / conductivity / width patterns of Yee.tla (Ie2Pat, Im2Pat, LossPat, WPat)"""
    val = {0: 1, 1: 2, 2: 4}
    ie2, im2, ls = [], [], []
    for c in range(1, 4):
        for x in range(shape[0]):
            for y in range(shape[1]):
                for z in range(shape[2]):
                    ie2.append(2 if mat == 0 else val[(c + x + 2 * y + 3 * z) % 3])
                    im2.append(2 if mat == 0 else val[(2 * c + x + y + z + 1) % 3])
                    ls.append(0 if loss == 0 else (1 if (c + x + y + z) % 2 == 0 else 0))
    w = None if wp == 0 else [[1 + ((k + a) % 2) for k in range(1, shape[a - 1] + 1)] for a in (1, 2, 3)]
    d = dict(shape=list(shape), kinds=list(kinds), ie2=ie2, im2=im2, loss=ls if loss else None, w=w)
    d.update(kw)
    return d


def wall_masks(cfg):
    """boolean masks (3,nx,ny,nz): entries zeroed by PEC (E) / PMC (H) walls = the wall conditions"""
    shape = tuple(cfg["shape"])
    zE = np.zeros((3, *shape), dtype=bool)
    zH = np.zeros((3, *shape), dtype=bool)
    for a, k in enumerate(cfg["kinds"]):
        ki = kind_info(k)
        for side, v in ((0, ki["lo"]), (1, ki["hi"])):
            if v == 0:
                continue
            sl = [slice(None)] * 3
            sl[a] = slice(0, 1) if side == 0 else slice(shape[a] - 1, shape[a])
            for c in range(3):
                if c != a:
                    (zE if v == 1 else zH)[(c, *sl)] = True
    return zE, zH


# ------------------------------------------------------------------ scene construction (public pipeline)
def build(cfg):
    import jax
    import jax.numpy as jnp

    import fdtdx
    from fdtdx.constants import eta0
    from fdtdx.core.grid import RectilinearGrid
    from fdtdx.fdtd.container import ObjectContainer
    from harness.scenes import make_switch

    shape = tuple(cfg["shape"])
    T = cfg.get("T", 4)
    cf = cfg.get("cf", CF)
    w = cfg.get("w")
    if w is None:
        grid = fdtdx.UniformGrid(spacing=RES)
        lengths = [s * RES for s in shape]
    else:
        edges = [np.concatenate([[0.0], np.cumsum(np.asarray(x, dtype=np.float64))]) * RES for x in w]
        grid = RectilinearGrid.custom(x_edges=jnp.asarray(edges[0]), y_edges=jnp.asarray(edges[1]), z_edges=jnp.asarray(edges[2]))
        lengths = [float(e[-1] - e[0]) for e in edges]
    kw = dict(grid=grid, backend="cpu", dtype=jnp.float64, courant_factor=cf)
    dt = fdtdx.SimulationConfig(time=1e-15, **kw).time_step_duration
    config = fdtdx.SimulationConfig(time=(T + 0.25) * dt, gradient_config=None, use_complex_fields=True if cfg.get("complex") else None, **kw)
    assert config.time_steps_total == T, (config.time_steps_total, T)
    objects, constraints = [], []
    volume = fdtdx.SimulationVolume(partial_grid_shape=shape)
    objects.append(volume)
    kis = [kind_info(k) for k in cfg["kinds"]]
    types, halo = {}, []
    bloch = [0.0, 0.0, 0.0]
    for a, ki in enumerate(kis):
        lo, hi = FACES[2 * a], FACES[2 * a + 1]
        if ki["wrap"]:
            if ki["ph"] == 0 and not cfg.get("bloch_k"):
                types[lo] = types[hi] = "periodic"
            else:
                types[lo] = types[hi] = "bloch"
                bloch[a] = (cfg["bloch_k"][a] if cfg.get("bloch_k") else ki["ph"] * (math.pi / 2)) / lengths[a]
        else:
            for f, v in ((lo, ki["lo"]), (hi, ki["hi"])):
                types[f] = "pmc" if v == 2 else ("pml" if v == 3 else "pec")
                if v == 0:
                    halo.append(f)
    for f, v in (cfg.get("pml_faces") or {}).items():
        types[f] = "pml"
    bcfg = fdtdx.BoundaryConfig.from_uniform_bound(thickness=cfg.get("pml", 3), boundary_type="pec", override_types=types, bloch_vector=tuple(bloch))
    bdict, clist = fdtdx.boundary_objects_from_config(bcfg, volume)
    objects.extend(bdict.values())
    constraints.extend(clist)
    halo_names = {bdict[f].name for f in halo}
    if cfg.get("slab"):
        sl = cfg["slab"]
        def tup(v):  # scalar = isotropic, 3 values = diagonal, 3x3 nested = full tensor
            return tuple(tup(x) for x in v) if isinstance(v, (list, tuple)) else v

        mat = fdtdx.Material(permittivity=tup(sl.get("eps", 2.0)), permeability=tup(sl.get("mu", 1.0)),
                             electric_conductivity=tup(sl.get("sigma", 0.0)), magnetic_conductivity=tup(sl.get("sigma_m", 0.0)))
        sshape = tuple(h - l for l, h in zip(sl["lo"], sl["hi"]))
        slab = fdtdx.UniformMaterialObject(name="slab", partial_grid_shape=sshape, material=mat)
        constraints.append(slab.set_grid_coordinates(axes=(0, 1, 2), sides=("-", "-", "-"), coordinates=tuple(sl["lo"])))
        objects.append(slab)
    for n, s in enumerate(cfg.get("sources", [])):
        wc = fdtdx.WaveCharacter(wavelength=s.get("wl", 800e-9), phase_shift=s.get("phase", 0.0))
        common = dict(name=s.get("name", f"src{n}"), wave_character=wc, switch=make_switch(s.get("switch")), static_amplitude_factor=s.get("saf", 1.0))
        prof = s.get("profile")
        if prof == "gauss":
            common["temporal_profile"] = fdtdx.GaussianPulseProfile(spectral_width=fdtdx.WaveCharacter(wavelength=s.get("wl", 800e-9) * 4), center_wave=wc)
        elif isinstance(prof, list):
            from fdtdx.objects.sources.profile import CustomTimeSignalProfile

            common["temporal_profile"] = CustomTimeSignalProfile(signal=jnp.asarray(prof, dtype=jnp.float64), time_step_duration=dt)
        k = s.get("kind", "dipole")
        if k in ("dipole", "mdipole"):
            src = fdtdx.PointDipoleSource(partial_grid_shape=(1, 1, 1), polarization=s.get("pol", 0), amplitude=s.get("amp", 1.0),
                                          source_type="magnetic" if k == "mdipole" else "electric",
                                          azimuth_angle=s.get("az", 0.0), elevation_angle=s.get("el", 0.0), **common)
            pos = tuple(s["pos"])
        else:
            ax = s.get("axis", 2)
            pshape = [None, None, None]
            pshape[ax] = 1
            pol = [0.0, 0.0, 0.0]
            pol[s.get("pol", (ax + 1) % 3)] = 1.0
            if k == "plane":
                src = fdtdx.UniformPlaneSource(partial_grid_shape=tuple(pshape), direction=s.get("dir", "+"), fixed_E_polarization_vector=tuple(pol),
                                               amplitude=s.get("amp", 1.0), azimuth_angle=s.get("az", 0.0), elevation_angle=s.get("el", 0.0), **common)
            else:
                src = fdtdx.GaussianPlaneSource(partial_grid_shape=tuple(pshape), direction=s.get("dir", "+"), fixed_E_polarization_vector=tuple(pol),
                                                radius=s.get("radius", 2 * RES), **common)
            pos = [0, 0, 0]
            pos[ax] = s["at"]
            constraints.append(src.set_grid_coordinates(axes=(ax,), sides=("-",), coordinates=(s["at"],)))
            objects.append(src)
            continue
        constraints.append(src.set_grid_coordinates(axes=(0, 1, 2), sides=("-", "-", "-"), coordinates=pos))
        objects.append(src)
    for n, d in enumerate(cfg.get("detectors", [])):
        dshape = tuple(h - l for l, h in zip(d["lo"], d["hi"]))
        k = d["kind"]
        # records in double precision so that run-to-run relations can be compared at float64 round-off
        kwd = dict(name=d.get("name", f"det{n}"), partial_grid_shape=dshape, switch=make_switch(d.get("switch")), plot=False,
                   dtype=jnp.complex128 if k == "phasor" else jnp.float64)
        if k == "energy":
            det = fdtdx.EnergyDetector(**kwd, as_slices=False, reduce_volume=d.get("reduce", False))
        elif k == "field":
            det = fdtdx.FieldDetector(**kwd, reduce_volume=d.get("reduce", False), exact_interpolation=d.get("exact", True))
        elif k == "poynting":
            det = fdtdx.PoyntingFluxDetector(**kwd, direction=d.get("dir", "+"), fixed_propagation_axis=d.get("axis", 2), exact_interpolation=d.get("exact", True))
        elif k == "phasor":
            det = fdtdx.PhasorDetector(**kwd, wave_characters=(fdtdx.WaveCharacter(wavelength=d.get("wl", 800e-9)),), reduce_volume=d.get("reduce", False))
        else:
            raise ValueError(k)
        constraints.append(det.set_grid_coordinates(axes=(0, 1, 2), sides=("-", "-", "-"), coordinates=tuple(d["lo"])))
        objects.append(det)
    key = jax.random.PRNGKey(cfg.get("key", 0))
    obj, arrays, params, config, _ = fdtdx.place_objects(object_list=objects, config=config, constraints=constraints, key=key)
    arrays, obj, _ = fdtdx.apply_params(arrays, obj, params, key)
    if halo_names:
        keep = [o for o in obj.object_list if o.name not in halo_names]
        vol_idx = [i for i, o in enumerate(keep) if o is obj.volume][0]
        obj = ObjectContainer(object_list=keep, volume_idx=vol_idx)
    # materials of the configuration ("comp": number of components 1 | 3 of each replaced array; the arrays of a scene
    # may have different component counts, e.g. isotropic permittivity with diagonally anisotropic conductivity)
    full = (3, *shape)
    comp = cfg.get("comp") or {}
    c = config.courant_number

    def arr(flat, name, scale=1.0):
        a = np.asarray(flat, dtype=np.float64).reshape(full) * scale
        return jnp.asarray(a[: comp.get(name, 3)])

    if cfg.get("fie") is not None:
        arrays = arrays.aset("inv_permittivities", arr(cfg["fie"], "ie"))
    elif cfg.get("ie2") is not None:
        arrays = arrays.aset("inv_permittivities", arr(cfg["ie2"], "ie", 0.5))
    if cfg.get("fim") is not None:
        arrays = arrays.aset("inv_permeabilities", arr(cfg["fim"], "im"))
    elif cfg.get("im2") is not None:
        arrays = arrays.aset("inv_permeabilities", arr(cfg["im2"], "im", 0.5))
    if cfg.get("fsig") is not None:
        arrays = arrays.aset("electric_conductivity", arr(cfg["fsig"], "sig", 1.0 / eta0))
    elif cfg.get("loss") is not None and any(cfg["loss"]):
        ls = np.asarray(cfg["loss"], dtype=np.float64).reshape(full)
        ie_now = np.broadcast_to(np.asarray(arrays.inv_permittivities), full)
        arrays = arrays.aset("electric_conductivity", jnp.asarray(ls * (2.0 / 3.0) / (c * eta0 * ie_now)))
    if cfg.get("fsigm") is not None:
        arrays = arrays.aset("magnetic_conductivity", arr(cfg["fsigm"], "sigm", eta0))
    arrays = isotropic_on_source_planes(cfg, arrays)
    return obj, arrays, config


def steppers(obj, arrays, config, with_backward=False):
    """(fwd, bwd): vmappable single-step functions (t, E, H) -> (E', H') through the real forward() / backward()"""
    import jax
    import jax.numpy as jnp

    from fdtdx.fdtd.backward import backward
    from fdtdx.fdtd.forward import forward
    from harness.scenes import attach_gradient

    key = jax.random.PRNGKey(0)
    if with_backward:
        arrays, config = attach_gradient(arrays, config, obj, "reversible")

    def fwd(t, E, H):
        a = arrays.aset("fields->E", E).aset("fields->H", H)
        st = forward((t, a), config, obj, key, record_detectors=False, record_boundaries=False, simulate_boundaries=True)
        return st[1].fields.E, st[1].fields.H

    def bwd(t, E, H):
        a = arrays.aset("fields->E", E).aset("fields->H", H)
        st = backward((t, a), config, obj, key, record_detectors=False, reset_fields=False)
        return st[1].fields.E, st[1].fields.H

    return fwd, bwd, arrays, config


def field_dtype(arrays):
    return arrays.fields.E.dtype


# ------------------------------------------------------------------ numerics owned by the harness (trusted base)
def weights(cfg):
    """energy weights (3,nx,ny,nz): primal width along the component axis x dual widths across it (E), converse (H).
    dual[k] = (w[k] + w[max(k-1,0)]) / 2  -- the code's convention in _metric_scale (index 0 uses w[0])."""
    shape = tuple(cfg["shape"])
    w = [np.asarray(x, dtype=np.float64) for x in (cfg.get("w") or [[1] * s for s in shape])]
    d = [0.5 * (x + np.concatenate([x[:1], x[:-1]])) for x in w]

    def outer(ax, ay, az):
        return ax[:, None, None] * ay[None, :, None] * az[None, None, :]

    wE = np.stack([outer(w[0], d[1], d[2]), outer(d[0], w[1], d[2]), outer(d[0], d[1], w[2])])
    wH = np.stack([outer(d[0], w[1], w[2]), outer(w[0], d[1], w[2]), outer(w[0], w[1], d[2])])
    return wE, wH


def energy(cfg, arrays, E, Hp, H):
    """discrete Yee energy  sum wE eps |E|^2 + sum wH mu Re(conj(Hp) H)  (batched over a leading axis)"""
    full = (3, *cfg["shape"])
    eps = 1.0 / np.broadcast_to(np.asarray(arrays.inv_permittivities, dtype=np.float64), full)
    mu = 1.0 / np.broadcast_to(np.asarray(arrays.inv_permeabilities, dtype=np.float64), full)
    wE, wH = weights(cfg)
    ax = tuple(range(E.ndim - 4, E.ndim))
    return np.sum(wE * eps * np.abs(E) ** 2, axis=ax) + np.sum(wH * mu * np.real(np.conj(Hp) * H), axis=ax)


def energy_scale(cfg, arrays, E, Hp, H):
    """sum of the absolute values of the energy terms: the natural scale of the rounding noise of energy()"""
    full = (3, *cfg["shape"])
    eps = 1.0 / np.broadcast_to(np.asarray(arrays.inv_permittivities, dtype=np.float64), full)
    mu = 1.0 / np.broadcast_to(np.asarray(arrays.inv_permeabilities, dtype=np.float64), full)
    wE, wH = weights(cfg)
    ax = tuple(range(E.ndim - 4, E.ndim))
    return np.sum(wE * eps * np.abs(E) ** 2, axis=ax) + np.sum(wH * mu * np.abs(Hp) * np.abs(H), axis=ax)


def dissipation(cfg, arrays, config, E0, E1):
    """manifest dissipated energy of one step, PER COMPONENT:  sum wE eps s |E1 + E0|^2,  s = c sigma eta0 inv_eps / 2"""
    from fdtdx.constants import eta0

    full = (3, *cfg["shape"])
    if arrays.electric_conductivity is None:
        return np.zeros(E0.shape[:-4])
    ie = np.broadcast_to(np.asarray(arrays.inv_permittivities, dtype=np.float64), full)
    sig = np.broadcast_to(np.asarray(arrays.electric_conductivity, dtype=np.float64), full)
    s = config.courant_number * sig * eta0 * ie / 2
    wE, _ = weights(cfg)
    ax = tuple(range(E0.ndim - 4, E0.ndim))
    return np.sum(wE * (1.0 / ie) * s * np.abs(E1 + E0) ** 2, axis=ax)


def plane_source_planes(cfg):
    """(axis, index) of every plane-type (TFSF) source of the configuration"""
    return [(s.get("axis", 2), s["at"]) for s in cfg.get("sources", []) if s.get("kind", "dipole") in ("plane", "gauss")]


def isotropic_on_source_planes(cfg, arrays):
    """The library refuses plane / Gaussian sources inside anisotropic material (core/grid.py calculate_time_offset_yee) and
    the properties do not cover that case: wherever the harness REPLACES material arrays, the cells of every plane-source
    plane get an isotropic permittivity / permeability (component 0 on the diagonal, no off-diagonal entries)."""
    import jax
    import jax.numpy as jnp

    planes = plane_source_planes(cfg)
    if not planes:
        return arrays
    for name in ("inv_permittivities", "inv_permeabilities"):
        a = getattr(arrays, name)
        if not (isinstance(a, jax.Array) and a.ndim == 4 and a.shape[0] in (3, 9)):
            continue
        b = np.array(a)
        for ax, at in planes:
            sl = [slice(None)] * 3
            sl[ax] = slice(at, at + 1)
            sl = tuple(sl)
            ref = b[(0, *sl)].copy()
            for comp in range(b.shape[0]):
                diag = comp in ((0, 1, 2) if b.shape[0] == 3 else (0, 4, 8))
                b[(comp, *sl)] = ref if diag else 0.0
        arrays = arrays.aset(name, jnp.asarray(b))
    return arrays


class Refused(Exception):
    pass


def is_refusal(e):
    """the library declined the scene (documented as unsupported) -- not an observation of the property"""
    seen, cur = set(), e
    while cur is not None and id(cur) not in seen:
        seen.add(id(cur))
        txt = f"{type(cur).__name__}: {cur}"
        if isinstance(cur, (NotImplementedError, Refused)) or "NotImplementedError" in txt or "not supported" in txt or "are not supported yet" in txt:
            return True
        cur = cur.__cause__ or cur.__context__
    return False


def safe_observe(fn, case, kind, tol):
    """observe(case); a scene the library refuses becomes a 'skipped' record (one soft monitor => spec drift, never a
    machinery error and never a verdict on the property: nothing was observed)"""
    import jax

    e = None
    for attempt in (1, 2):  # a genuinely refused scene fails both times; the retry only guards against an error of another
        try:                # thread's scene surfacing here (debug-callback errors are raised at the next synchronisation)
            rec = fn(case)
            jax.effects_barrier()  # the refusal is raised from a debug callback: flush it inside this observation
            return rec
        except Exception as ex:  # noqa: BLE001
            if not is_refusal(ex):
                raise
            e = ex
    if True:
        try:
            jax.effects_barrier()
        except Exception:  # noqa: BLE001
            pass
        msg = str(e).strip().splitlines()[-1][:120] if str(e).strip() else type(e).__name__
        return {"id": case["id"], "kind": kind, "tol": tol, "devtol": 1000, "exact": False, "runs": [], "skipped": True,
                "mons": [{"name": f"skipped: the library refused this scene ({type(e).__name__}: {msg})", "d": 2_000_000_000, "two": True, "soft": True}]}


def full_tensor(cfg, arrays, seed):
    """replace inv_eps / inv_mu by symmetric positive definite full 3x3 tensors (9 components, lossless)"""
    import jax.numpy as jnp

    rs = np.random.RandomState(seed)
    shape = tuple(cfg["shape"])

    def spd():
        a = rs.uniform(-0.15, 0.15, size=(3, 3, *shape))
        m = 0.5 * (a + np.transpose(a, (1, 0, 2, 3, 4)))
        for i in range(3):
            m[i, i] = rs.uniform(0.4, 1.0, size=shape)
        return m.reshape(9, *shape)

    arrays = arrays.aset("inv_permittivities", jnp.asarray(spd()))
    arrays = arrays.aset("inv_permeabilities", jnp.asarray(spd()))
    return isotropic_on_source_planes(cfg, arrays)


def component_counts(arrays):
    def n(x):
        return 0 if x is None else (int(x.shape[0]) if hasattr(x, "shape") and len(x.shape) > 0 else 1)

    return {"inv_eps": n(arrays.inv_permittivities), "inv_mu": n(arrays.inv_permeabilities),
            "sigma_E": n(arrays.electric_conductivity), "sigma_H": n(arrays.magnetic_conductivity)}


def to_ints(x, scale):
    """(re list, im list, max deviation from integers) of scale * x, flat C order"""
    x = np.asarray(x) * scale
    re = np.real(x).ravel()
    im = np.imag(x).ravel() if np.iscomplexobj(x) else np.zeros_like(re)
    if not (np.all(np.isfinite(re)) and np.all(np.isfinite(im))):
        return [0] * re.size, [0] * re.size, float("inf")
    rr, ri = np.rint(re), np.rint(im)
    dev = float(max(np.max(np.abs(re - rr)), np.max(np.abs(im - ri))))
    if max(np.max(np.abs(rr)), np.max(np.abs(ri))) >= 2**31 - 1:
        return [0] * re.size, [0] * re.size, float("inf")
    return [int(v) for v in rr], [int(v) for v in ri], dev


def ppb(dev):
    return int(min(2_000_000_000, round(dev * 1e9))) if np.isfinite(dev) else 2_000_000_000


def scaled(x, unit=1e-13):
    """a real number as an integer count of `unit`, clipped to +-2e9 (nan/inf -> 2e9)"""
    if not np.isfinite(x):
        return 2_000_000_000
    return int(max(-2_000_000_000, min(2_000_000_000, round(x / unit))))


# ------------------------------------------------------------------ shared observation helpers
def den_after(k):
    """denominators (dE, dH) of the fields after k forward steps from integer data (uniform grid, lossless)"""
    return (1, 1) if k == 0 else (4 ** (2 * k - 1), 4 ** (2 * k))


def obs_state(E, H, k):
    dE, dH = den_after(k)
    er, ei, d1 = to_ints(E, dE)
    hr, hi, d2 = to_ints(H, dH)
    return {"Er": er, "Ei": ei, "Hr": hr, "Hi": hi, "dE": dE, "dH": dH}, max(d1, d2)


def int_states(cfg, rs, n_dense=4, n_pairs=6, basis=True, complex_ok=True, n_basis=None):
    """integer initial states respecting the wall conditions: admissible unit states, pairs, dense random states"""
    shape = (3, *cfg["shape"])
    n = int(np.prod(shape))
    zE, zH = wall_masks(cfg)
    adm = [k for k in range(2 * n) if not (zE.ravel()[k] if k < n else zH.ravel()[k - n])]
    cplx = complex_ok and any(kind_info(k)["wrap"] and kind_info(k)["ph"] != 0 for k in cfg["kinds"])
    out = []

    def mk(pairs):
        v = np.zeros(2 * n, dtype=np.complex128 if cplx else np.float64)
        for k, a in pairs:
            v[k] += a
        return v[:n].reshape(shape), v[n:].reshape(shape)

    if basis:
        sel = adm if (n_basis is None or n_basis >= len(adm)) else sorted(rs.choice(adm, size=n_basis, replace=False))
        for k in sel:
            out.append(mk([(k, 1)]))
    for _ in range(n_pairs):
        i, j = rs.choice(adm, size=2, replace=False)
        out.append(mk([(i, 1), (j, 1j if (cplx and rs.rand() < 0.5) else 1)]))
    for _ in range(n_dense):
        E = rs.randint(-3, 4, size=shape).astype(np.float64)
        H = rs.randint(-3, 4, size=shape).astype(np.float64)
        if cplx:
            E = E + 1j * rs.randint(-3, 4, size=shape)
            H = H + 1j * rs.randint(-3, 4, size=shape)
        E[zE] = 0
        H[zH] = 0
        out.append((E, H))
    E0 = np.stack([x[0] for x in out])
    H0 = np.stack([x[1] for x in out])
    return E0, H0


def float_states(cfg, rs, B, cplx):
    shape = (3, *cfg["shape"])
    zE, zH = wall_masks(cfg)
    E = rs.standard_normal((B, *shape))
    H = rs.standard_normal((B, *shape))
    if cplx:
        E = E + 1j * rs.standard_normal((B, *shape))
        H = H + 1j * rs.standard_normal((B, *shape))
    E[:, zE] = 0
    H[:, zH] = 0
    return E, H


def random_kinds(rng, allow_bloch=True):
    ks = []
    for _ in range(3):
        r = rng.random()
        if r < 0.25:
            ks.append(1)
        elif r < 0.45 and allow_bloch:
            ks.append(rng.choice([2, 3, 4]))
        else:
            ks.append(rng.randint(5, 13))
    return ks


def sweep_configs():
    """the per-axis sweep of Yee.tla: the long axis runs through all 13 kinds, background periodic / (PEC, bare halo)"""
    out = []
    for a, shape in enumerate(([3, 2, 2], [2, 3, 2], [2, 2, 3])):
        for k in range(1, 14):
            kinds = [0, 0, 0]
            kinds[a] = k
            kinds[(a + 1) % 3] = 1
            kinds[(a + 2) % 3] = 8
            out.append((shape, kinds))
    return out


# ------------------------------------------------------------------ whole runs through the public run_fdtd
def run_pipeline(cfg):
    """build the scene and run fdtdx.run_fdtd; returns (E, H, {detector: {key: array}}) as numpy"""
    import fdtdx

    obj, arrays, config = build(cfg)
    _, out = fdtdx.run_fdtd(arrays, obj, config, show_progress=False)
    dets = {dn: {k: np.asarray(v) for k, v in sorted(d.items())} for dn, d in sorted(out.detector_states.items())}
    return np.asarray(out.fields.E), np.asarray(out.fields.H), dets


def rel_dev(x, ref, scale):
    """max |x - ref| / scale  (inf if shapes differ or not finite)"""
    x, ref = np.asarray(x), np.asarray(ref)
    if x.shape != ref.shape or not (np.all(np.isfinite(x)) and np.all(np.isfinite(ref))):
        return float("inf")
    if x.size == 0:
        return 0.0
    s = float(scale)
    d = float(np.max(np.abs(x - ref)))
    return 0.0 if d == 0.0 else (d / s if s > 0 else float("inf"))


def pipeline_scene(rng, quick=True):
    """random scene for whole-run comparisons: absorbing / periodic / PEC / PMC faces, 1-3 sources, all detector kinds"""
    pml = 3
    kinds, shape = [], []
    for a in range(3):
        r = rng.random()
        if r < 0.4:
            kinds.append(5 + 3 * 3 + 3)  # placeholder for "pml both" (handled through pml_faces)
        elif r < 0.7:
            kinds.append(1)
        else:
            kinds.append(rng.choice([9, 10, 12, 13]))
    pml_faces = {}
    real_kinds = []
    for a, k in enumerate(kinds):
        if k == 17:
            pml_faces[FACES[2 * a]] = "pml"
            pml_faces[FACES[2 * a + 1]] = "pml"
            real_kinds.append(9)
            shape.append(rng.randint(9, 10))
        else:
            real_kinds.append(k)
            shape.append(rng.randint(5, 7))
    lo = [pml if FACES[2 * a] in pml_faces else 1 for a in range(3)]
    hi = [shape[a] - (pml if FACES[2 * a] in pml_faces else 1) for a in range(3)]
    c = [s // 2 for s in shape]
    T = rng.randint(10, 14)
    srcs = []
    for n in range(rng.randint(1, 3)):
        kind = rng.choice(["dipole", "mdipole", "plane", "gauss"])
        s = {"kind": kind, "name": f"s{n}", "wl": rng.choice([500e-9, 800e-9]), "amp": rng.choice([1.0, 2.0]),
             "switch": rng.choice([{}, {}, {"interval": 2}, {"fixed_on_time_steps": sorted(rng.sample(range(T), T // 2))}]),
             "profile": rng.choice(["single", "gauss"])}
        if kind in ("dipole", "mdipole"):
            s["pos"] = [rng.randint(lo[a], hi[a] - 1) for a in range(3)]
            s["pol"] = rng.randrange(3)
        else:
            ax = rng.randrange(3)
            s["axis"], s["at"], s["dir"] = ax, rng.randint(lo[ax], hi[ax] - 1), rng.choice(["+", "-"])
            s["pol"] = (ax + rng.choice([1, 2])) % 3
        srcs.append(s)
    dlo = [max(lo[a], c[a] - 1) for a in range(3)]
    dhi = [min(hi[a], c[a] + 1) for a in range(3)]
    flat_hi = list(dhi)
    flat_hi[2] = dlo[2] + 1
    dets = [
        {"kind": "field", "name": "d_field", "lo": dlo, "hi": dhi, "exact": rng.random() < 0.5},
        {"kind": "phasor", "name": "d_phasor", "lo": dlo, "hi": dhi, "wl": 800e-9},
        {"kind": "energy", "name": "d_energy", "lo": dlo, "hi": dhi},
        {"kind": "poynting", "name": "d_poynting", "lo": dlo, "hi": flat_hi, "axis": 2},
    ]
    cfg = {"shape": shape, "kinds": real_kinds, "pml_faces": pml_faces, "pml": pml, "T": T, "cf": 0.99, "sources": srcs, "detectors": dets}
    if rng.random() < 0.6:
        cfg["slab"] = {"lo": [lo[0], lo[1], c[2]], "hi": [hi[0], hi[1], c[2] + 1], "eps": rng.choice([2.0, 4.0]), "mu": rng.choice([1.0, 1.5])}
    return cfg


# ------------------------------------------------------------------ shared check pipeline (run.py calls mod.run(ctx))
def pipeline(mod, ctx):
    """run.py's default pipeline plus evidence that counts what a record contains (a record = one configuration with
    many exact runs / tolerance monitors) and trimmed samples."""
    import json

    from lib.worker import pmap

    mod.model_check(ctx)
    inputs = list(mod.gen_cases(ctx))
    recs = pmap(mod.__name__, "observe", inputs, procs=getattr(mod, "PARALLEL", 4), mode="thread")
    for r in recs[:1] + [x for x in recs if not x.get("exact")][:1]:
        s = {k: v for k, v in r.items() if k not in ("runs", "ie2", "im2", "loss")}
        s["runs"] = r.get("runs", [])[:1]
        s["n_runs"] = len(r.get("runs", []))
        ctx.sample(s)
    ctx.nontrivial = len({json.dumps(c, sort_keys=True, default=str) for c in inputs})
    modes = {}
    for c in inputs:
        modes[c.get("mode", "?")] = modes.get(c.get("mode", "?"), 0) + 1
    ctx.extra_cov["configurations_by_mode"] = modes
    ctx.extra_cov["exact_runs_validated_by_tlc"] = sum(len(r.get("runs", [])) for r in recs)
    ctx.extra_cov["tolerance_monitors_validated_by_tlc"] = sum(len(r.get("mons", [])) for r in recs)
    # two-sided monitors: |d| ; one-sided ("never increases"): only the positive part counts
    ctx.extra_cov["largest_monitor_excess_1e-13"] = max([abs(m["d"]) if m["two"] else max(m["d"], 0) for r in recs for m in r.get("mons", [])] or [0])
    ctx.extra_cov["tolerance_1e-13"] = max([r.get("tol", 0) for r in recs] or [0])
    ctx.extra_cov["skipped_refused_scenes"] = [r["id"] for r in recs if r.get("skipped")]
    ctx.validate(*mod.TRACE, recs, {c["id"]: c for c in inputs}, classify=getattr(mod, "classify", None), chunk=getattr(mod, "CHUNK", 400))
