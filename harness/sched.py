"""Shared harness for the run-level schedule checks (C04, C05, C06): run real scenes with the step hooks on and
turn hook events + harness markers into records for spec/Trace_Schedule.tla."""
from __future__ import annotations

import numpy as np

KEYS = dict(ev="", t=0, a=0, b=0, rs=False, rd=False, rb=False, s=0, taken=False, method="none", K=0, kind="", fpE=0.0, fpH=0.0, fpD=0.0, gerr=0)


def ev(**kw):
    e = dict(KEYS)
    e.update(kw)
    return e


def norm_hook(e):
    out = dict(KEYS)
    for k, v in e.items():
        if k == "reset":
            continue
        out[k] = v
    return out


def det_fp(detector_states):
    """fixed pseudo-random linear functional of all detector state arrays (sorted by name/key)."""
    tot = 0.0
    for dn in sorted(detector_states):
        for k in sorted(detector_states[dn]):
            x = np.asarray(detector_states[dn][k])
            if np.iscomplexobj(x):
                x = x.real + 0.5 * x.imag
            x = np.ravel(x.astype(np.float64))
            w = np.sin(np.arange(x.shape[0], dtype=np.float64) * 0.6113 + 0.7)
            tot += float(np.dot(x, w))
    return tot


def field_fp(x):
    x = np.asarray(x)
    if np.iscomplexobj(x):
        x = x.real + 0.5 * x.imag
    x = np.ravel(x.astype(np.float64))
    w = np.sin(np.arange(x.shape[0], dtype=np.float32) * np.float32(0.7391) + np.float32(0.3)).astype(np.float64)
    return float(np.dot(x, w))


def finalize(rec_id, T, events, tol=20, gtol=1000, cmp_fp=True, extra=None):
    """scale fingerprints to integers (1e8 * value / max|value|) and build the record."""
    m = {"fpE": 0.0, "fpH": 0.0, "fpD": 0.0}
    for e in events:
        for k in m:
            if np.isfinite(e[k]):
                m[k] = max(m[k], abs(e[k]))
    out = []
    for e in events:
        e = dict(e)
        for k in m:
            v = e[k]
            if not np.isfinite(v):
                e[k] = 2_000_000_000
            else:
                e[k] = int(round(1e8 * v / m[k])) if m[k] > 0 else 0
        e["gerr"] = int(min(e["gerr"], 2_000_000_000))
        out.append(e)
    rec = {"id": rec_id, "T": T, "tol": tol, "gtol": gtol, "cmp_fp": bool(cmp_fp), "events": out}
    if extra:
        rec.update(extra)
    return rec


def interior_mask(obj, shape):
    """cells outside every absorbing layer"""
    m = np.ones(shape, dtype=bool)
    for b in obj.pml_objects:
        sl = tuple(slice(s, e) for (s, e) in b.grid_slice_tuple)
        m[sl] = False
    return m


def field_scale(x):
    """sum |x_i| |w_i|: the natural scale of field_fp's rounding noise"""
    x = np.abs(np.ravel(np.asarray(x))).astype(np.float64)
    w = np.abs(np.sin(np.arange(x.shape[0], dtype=np.float32) * np.float32(0.7391) + np.float32(0.3))).astype(np.float64)
    return float(np.dot(x, w))


def det_scale(detector_states):
    tot = 0.0
    for dn in sorted(detector_states):
        for k in sorted(detector_states[dn]):
            x = np.abs(np.ravel(np.asarray(detector_states[dn][k]))).astype(np.float64)
            w = np.abs(np.sin(np.arange(x.shape[0], dtype=np.float64) * 0.6113 + 0.7))
            tot += float(np.dot(x, w))
    return tot
