"""Scene builder + array encoders for the relational checks (C08, C09, C33, C38, C42).

Everything is built through the PUBLIC pipeline (place_objects -> apply_params), like harness/scenes.py, but with
the extra degrees of freedom those properties need:

  shape [nx,ny,nz]   T steps   res   cf (courant factor; 0.5*sqrt(3) makes config.courant_number exactly 0.5)
  bounds {"min_x": "pml"|"periodic"|"pec"|"pmc"|"bloch", ...}  (missing: "periodic"),  pml (thickness),
  faces  {"min_x": {"thickness": 3, "sigma_end": .., "kappa_end": .., "alpha_start": .., ...}, ...}  per-face PML
         parameters through BoundaryConfig's per-face fields (missing entries: thickness `pml`, library defaults)
  kvec   [kx,ky,kz] bloch vector (rad/m)
  slabs  [{"lo","hi","eps": float | [ex,ey,ez] | [[xx,xy,xz],[yx,yy,yz],[zx,zy,zz]], "mu": ..., "sigma": ..., "name"}]
  sources   [{"kind":"dipole"|"mdipole","pos","pol","amp","wl","switch"} |
             {"kind":"plane","axis":a,"dir":"+","pos":k,"epol":[..] ,"wl","amp", "lo":[..],"hi":[..] (optional)}]
  detectors [{"kind":"field"|"energy"|"poynting"|"phasor","name","lo","hi","exact":bool,"axis","switch","components":[..] (field/phasor), "reduce":bool}]
  every slab / source / detector entry may carry "place": "grid" (default: set_grid_coordinates) | "real"
  (RealCoordinateConstraint on all three axes, min sides pinned at the physical edge coordinate, domain centre = 0) |
  "center" (partial_real_position = physical centre of the object relative to the domain centre)
  center [cx,cy,cz] physical coordinate of the domain centre (default 0): UniformGrid/QuasiUniformGrid `center`, shifted
         edges of the explicit RectilinearGrid; "real" placements are absolute coordinates and move with it,
         "center" placements (partial_real_position) are relative to the domain centre and do not
  grid   "uniform" (default) | "rect" (explicit RectilinearGrid, equal spacings) | "quasi" (QuasiUniformGrid)
  symmetry [sx,sy,sz]   complex bool   key int
"""
from __future__ import annotations

import numpy as np

FACES = ("min_x", "max_x", "min_y", "max_y", "min_z", "max_z")
CF_HALF = 0.5 * 3**0.5  # config.courant_number == 0.5 exactly


def _grid(sc, shape=None):
    import fdtdx

    res = sc.get("res", 50e-9)
    g = sc.get("grid", "uniform")
    cen = tuple(float(c) for c in sc.get("center", (0.0, 0.0, 0.0)))
    if g == "uniform":
        return fdtdx.UniformGrid(spacing=res, center=cen) if any(cen) else fdtdx.UniformGrid(spacing=res)
    if g == "quasi":
        from fdtdx.core.grid import QuasiUniformGrid

        return QuasiUniformGrid(dx=res, dy=res, dz=res, center=cen) if any(cen) else QuasiUniformGrid(dx=res, dy=res, dz=res)
    if g == "rect":
        from fdtdx.core.grid import RectilinearGrid

        shape = shape or sc["shape"]
        # explicit edge arrays with equal spacings, centred like the policies resolve them
        return RectilinearGrid.custom(*[cen[a] + (np.arange(n + 1, dtype=np.float64) - n / 2) * res for a, n in enumerate(shape)])
    raise ValueError(g)


def make_config(sc, **over):
    import jax.numpy as jnp

    import fdtdx

    cf = sc.get("cf", 0.99)
    T = sc["T"]
    dtype = jnp.float64
    kw = dict(backend="cpu", dtype=dtype, courant_factor=cf, gradient_config=None)
    if sc.get("complex"):
        kw["use_complex_fields"] = True
    if sc.get("symmetry"):
        kw["symmetry"] = tuple(sc["symmetry"])
    kw.update(over)
    cfg0 = fdtdx.SimulationConfig(time=1e-15, grid=_grid(sc), **kw)
    dt = cfg0.time_step_duration
    config = fdtdx.SimulationConfig(time=(T + 0.25) * dt, grid=_grid(sc), **kw)
    assert config.time_steps_total == T, (config.time_steps_total, T)
    return config


def make_switch(sw):
    import fdtdx

    return fdtdx.OnOffSwitch(**sw) if sw else fdtdx.OnOffSwitch()


def _placement(sc, entry, name, lo, hi):
    """-> (constructor kwargs, constraint factory(obj) -> list) for the entry's placement mode"""
    mode = entry.get("place", "grid")
    res = sc.get("res", 50e-9)
    n = sc["shape"]
    if mode == "grid":
        return {}, lambda o: [o.set_grid_coordinates(axes=(0, 1, 2), sides=("-", "-", "-"), coordinates=tuple(lo))]
    if mode == "real":
        from fdtdx.objects.object import RealCoordinateConstraint

        cen = sc.get("center", (0.0, 0.0, 0.0))
        coords = tuple(float(cen[a]) + (lo[a] - n[a] / 2) * res for a in range(3))
        return {}, lambda o: [RealCoordinateConstraint(object=name, axes=(0, 1, 2), sides=("-", "-", "-"), coordinates=coords)]
    if mode == "center":
        pos = tuple(((lo[a] + hi[a]) / 2 - n[a] / 2) * res for a in range(3))
        return {"partial_real_position": pos}, lambda o: []
    raise ValueError(mode)


def build(sc: dict, config=None):
    """-> (objects, arrays, config) through place_objects / apply_params."""
    import jax
    import jax.numpy as jnp

    import fdtdx

    config = config or make_config(sc)
    objects, constraints = [], []
    volume = fdtdx.SimulationVolume(partial_grid_shape=tuple(sc["shape"]))
    objects.append(volume)
    bounds = {f: sc.get("bounds", {}).get(f, "periodic") for f in FACES}
    if sc.get("faces"):
        bkw = {"bloch_vector": tuple(float(k) for k in sc.get("kvec", (0.0, 0.0, 0.0)))}
        for f in FACES:
            sfx = f.replace("_", "")     # min_x -> minx
            bkw[f"boundary_type_{sfx}"] = bounds[f]
            par = dict(sc["faces"].get(f, {}))
            bkw[f"thickness_grid_{sfx}"] = int(par.pop("thickness", sc.get("pml", 4)))
            for k, v in par.items():     # kappa_start/end/order, alpha_*, sigma_*
                bkw[f"{k}_{sfx}"] = float(v)
        bcfg = fdtdx.BoundaryConfig(**bkw)
    else:
        bcfg = fdtdx.BoundaryConfig.from_uniform_bound(
            thickness=sc.get("pml", 4),
            override_types={f: b for f, b in bounds.items() if b != "pml"},
            bloch_vector=tuple(float(k) for k in sc.get("kvec", (0.0, 0.0, 0.0))),
        )
    bdict, clist = fdtdx.boundary_objects_from_config(bcfg, volume)
    objects.extend(bdict.values())
    constraints.extend(clist)
    for n, sl in enumerate(sc.get("slabs", [])):
        eps = sl.get("eps", 2.0)
        if isinstance(eps, (list, tuple)):   # 3 diagonal entries, or a full 3x3 tensor as nested rows
            eps = tuple(tuple(float(v) for v in r) if isinstance(r, (list, tuple)) else float(r) for r in eps)
        mu = sl.get("mu", 1.0)
        mu = tuple(mu) if isinstance(mu, (list, tuple)) else mu
        sig = sl.get("sigma", 0.0)
        sig = tuple(sig) if isinstance(sig, (list, tuple)) else sig
        mat = fdtdx.Material(permittivity=eps, permeability=mu, electric_conductivity=sig)
        shape = tuple(h - l for l, h in zip(sl["lo"], sl["hi"]))
        nm = sl.get("name", f"slab{n}")
        pkw, pcon = _placement(sc, sl, nm, sl["lo"], sl["hi"])
        slab = fdtdx.UniformMaterialObject(name=nm, partial_grid_shape=shape, material=mat, **pkw)
        constraints.extend(pcon(slab))
        objects.append(slab)
    for n, s in enumerate(sc.get("sources", [])):
        wc = fdtdx.WaveCharacter(wavelength=s.get("wl", 800e-9))
        kind = s.get("kind", "dipole")
        if kind in ("dipole", "mdipole"):
            nm = s.get("name", f"src{n}")
            pkw, pcon = _placement(sc, s, nm, list(s["pos"]), [x + 1 for x in s["pos"]])
            kw = dict(name=nm, partial_grid_shape=(1, 1, 1), wave_character=wc, polarization=s.get("pol", 0),
                      amplitude=s.get("amp", 1.0), switch=make_switch(s.get("switch")), **pkw)
            if kind == "mdipole":
                kw["source_type"] = "magnetic"
            src = fdtdx.PointDipoleSource(**kw)
            constraints.extend(pcon(src))
        elif kind == "plane":
            a = s["axis"]
            lo = list(s.get("lo", [0, 0, 0]))
            hi = list(s.get("hi", sc["shape"]))
            lo[a], hi[a] = s["pos"], s["pos"] + 1
            shape = tuple(h - l for l, h in zip(lo, hi))
            src = fdtdx.UniformPlaneSource(name=s.get("name", f"src{n}"), partial_grid_shape=shape, wave_character=wc, direction=s.get("dir", "+"),
                                           fixed_E_polarization_vector=tuple(float(x) for x in s["epol"]), amplitude=s.get("amp", 1.0),
                                           switch=make_switch(s.get("switch")))
            constraints.append(src.set_grid_coordinates(axes=(0, 1, 2), sides=("-", "-", "-"), coordinates=tuple(lo)))
        else:
            raise ValueError(kind)
        objects.append(src)
    for n, d in enumerate(sc.get("detectors", [])):
        shape = tuple(h - l for l, h in zip(d["lo"], d["hi"]))
        nm = d.get("name", f"det{n}")
        pkw, pcon = _placement(sc, d, nm, d["lo"], d["hi"])
        kw = dict(name=nm, partial_grid_shape=shape, switch=make_switch(d.get("switch")), plot=False, dtype=jnp.float64,
                  exact_interpolation=d.get("exact", True), **pkw)
        k = d["kind"]
        if k == "energy":
            det = fdtdx.EnergyDetector(**kw, as_slices=False, reduce_volume=d.get("reduce", False))
        elif k == "field":
            ckw = {"components": tuple(d["components"])} if d.get("components") else {}
            det = fdtdx.FieldDetector(**kw, reduce_volume=d.get("reduce", False), **ckw)
        elif k == "poynting":
            det = fdtdx.PoyntingFluxDetector(**kw, direction=d.get("dir", "+"), fixed_propagation_axis=d.get("axis", 2), reduce_volume=d.get("reduce", True))
        elif k == "phasor":
            kw["dtype"] = jnp.complex128
            if d.get("components"):
                kw["components"] = tuple(d["components"])
            det = fdtdx.PhasorDetector(**kw, wave_characters=(fdtdx.WaveCharacter(wavelength=d.get("wl", 800e-9)),), reduce_volume=d.get("reduce", False))
        else:
            raise ValueError(k)
        constraints.extend(pcon(det))
        objects.append(det)
    key = jax.random.PRNGKey(sc.get("key", 0))
    obj, arrays, params, config, _ = fdtdx.place_objects(object_list=objects, config=config, constraints=constraints, key=key)
    arrays, obj, _ = fdtdx.apply_params(arrays, obj, params, key)
    return obj, arrays, config


def step_forward(arrays, obj, config, T, record_detectors=False, start=0):
    """T eager forward() steps; yields (t_after, arrays)."""
    import jax
    import jax.numpy as jnp

    from fdtdx.fdtd.forward import forward

    key = jax.random.PRNGKey(0)
    st = (jnp.asarray(start, dtype=jnp.int32), arrays)
    for _ in range(T):
        st = forward(st, config, obj, key, record_detectors=record_detectors, record_boundaries=False, simulate_boundaries=True)
        yield int(st[0]), st[1]


# ---------------------------------------------------------------- encoders (see spec/RelNum.tla)
B = 10_000
LIM = 10**12


def limbs(n: int):
    n = int(n)
    if abs(n) >= LIM:
        raise OverflowError(n)
    s = -1 if n < 0 else 1
    a = abs(n)
    return [s * (a // (B * B)), s * ((a // B) % B), s * (a % B)]


def enc_real(x, scale):
    """flat list of 3-limb integers round(x*scale) (C order); returns (list, max rounding deviation in units)."""
    v = np.ravel(np.asarray(x, dtype=np.float64)) * scale
    if not np.all(np.isfinite(v)):
        return [[9999, 9999, 9999] for _ in v], 1e30
    r = np.rint(v)
    r = np.clip(r, -(LIM - 1), LIM - 1)
    dev = float(np.max(np.abs(v - r))) if v.size else 0.0
    return [limbs(int(k)) for k in r], dev


def enc_cplx(x, scale):
    """flat list of 6-limb values [re2,re1,re0,im2,im1,im0]."""
    x = np.asarray(x)
    re, d1 = enc_real(x.real, scale)
    im, d2 = enc_real(x.imag if np.iscomplexobj(x) else np.zeros_like(x.real), scale)
    return [a + b for a, b in zip(re, im)], max(d1, d2)


def rel_scale(*arrs):
    """10^12 / (1.001 * max |component|) over the given arrays (1.0 if all zero)."""
    m = 0.0
    for a in arrs:
        a = np.asarray(a)
        if a.size == 0:
            continue
        if np.iscomplexobj(a):
            m = max(m, float(np.max(np.abs(a.real))), float(np.max(np.abs(a.imag))))
        else:
            m = max(m, float(np.max(np.abs(a))))
    if not np.isfinite(m):
        return 1.0
    return (0.999 * LIM) / m if m > 0 else 1.0
