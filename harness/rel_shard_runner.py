"""Subprocess runner for C42: build one scene (harness.rel_scene dict, JSON file argv[1]) on however many host devices
XLA_FLAGS=--xla_force_host_platform_device_count=N (set by the caller BEFORE this interpreter starts) provides, run
fdtdx.run_fdtd, and dump final fields + all detector state arrays as float hex strings to argv[2]."""
import json
import os
import sys

os.environ.setdefault("JAX_PLATFORMS", "cpu")
os.environ.setdefault("JAX_ENABLE_X64", "1")
sys.path.insert(0, os.environ.get("FDTDX_SRC", "/repo/src"))
sys.path.insert(0, os.path.dirname(os.path.dirname(os.path.abspath(__file__))))


def main():
    import jax
    import numpy as np

    import fdtdx
    from harness import rel_scene as RS

    sc = json.load(open(sys.argv[1]))
    obj, arrays, config = RS.build(sc)
    ndev = len(jax.devices())
    shard_E = str(arrays.fields.E.sharding)
    nshards = len(arrays.fields.E.addressable_shards)
    _, out = fdtdx.run_fdtd(arrays, obj, config, jax.random.PRNGKey(0), show_progress=False)
    res = {"ndev": ndev, "nshards": nshards, "sharding": shard_E, "src": os.path.abspath(fdtdx.__file__), "arrays": []}

    def put(name, x):
        x = np.asarray(x)
        if np.iscomplexobj(x):
            put(name + " (re)", x.real)
            put(name + " (im)", x.imag)
            return
        res["arrays"].append({"what": name, "shape": list(x.shape), "v": [float(v).hex() for v in np.ravel(x.astype(np.float64))]})

    put("E", out.fields.E)
    put("H", out.fields.H)
    for dn in sorted(out.detector_states):
        for k in sorted(out.detector_states[dn]):
            put(f"detector {dn}.{k}", out.detector_states[dn][k])
    json.dump(res, open(sys.argv[2], "w"))


if __name__ == "__main__":
    main()
