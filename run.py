#!/venv/bin/python
"""Driver:  /venv/bin/python run.py <ID> [--tier quick|thorough] [--replay <path>]

exit 0 = property held on everything explored (KNOWN-FINDING lines may be printed)
exit 1 = VIOLATION line(s) printed
exit 2 = machinery failure (never a verdict)
"""
import argparse
import importlib
import json
import os
import sys
import traceback

VERIF = os.path.dirname(os.path.abspath(__file__))
SRC = os.environ.get("FDTDX_SRC", "/repo/src")
sys.path.insert(0, VERIF)
sys.path.insert(0, SRC)
os.environ.setdefault("JAX_PLATFORMS", "cpu")
os.environ.setdefault("JAX_ENABLE_X64", "1")
os.environ.setdefault("PYTHONHASHSEED", "0")
os.environ["FDTDX_VERIF"] = "0"  # switched to "1" below for checks that declare HOOKS = True
os.environ["FDTDX_SRC"] = SRC
os.environ["PYTHONPATH"] = SRC + os.pathsep + VERIF + os.pathsep + os.environ.get("PYTHONPATH", "")

os.environ.setdefault("TF_CPP_MIN_LOG_LEVEL", "3")


def main() -> int:
    ap = argparse.ArgumentParser()
    ap.add_argument("id")
    ap.add_argument("--tier", default=os.environ.get("VERIF_TIER", "quick"), choices=["quick", "thorough"])
    ap.add_argument("--replay", default=None)
    a = ap.parse_args()
    seed = int(os.environ.get("VERIF_SEED", "0") or 0)
    from lib.common import Ctx
    from lib.tlc import MachineryError

    try:
        mod = importlib.import_module(f"checks.{a.id}")
        if getattr(mod, "HOOKS", False):
            os.environ["FDTDX_VERIF"] = "1"
        if getattr(mod, "X64", True) is False:
            os.environ["JAX_ENABLE_X64"] = "0"  # must happen before jax is imported
        ctx = Ctx(a.id, a.tier, seed, level=getattr(mod, "LEVEL", "model_checking"))
        if getattr(mod, "NEEDS_FDTDX", True):
            import fdtdx

            if not os.path.abspath(fdtdx.__file__).startswith(os.path.abspath(SRC)):
                raise MachineryError(f"fdtdx imported from {fdtdx.__file__}, expected {SRC}")
        if a.replay:
            with open(a.replay) as f:
                rp = json.load(f)
            inp = rp.get("input")
            if inp is None:
                raise MachineryError("replay file has no 'input'")
            if hasattr(mod, "replay"):
                mod.replay(ctx, inp)
            else:
                rec = mod.observe(inp)
                ctx.validate(*mod.TRACE, [rec], {rec["id"]: inp}, classify=getattr(mod, "classify", None))
            for v in ctx.violations:
                print(f"VIOLATION property={a.id} replay={a.replay}")
                print(f"  case {v['id']}: failing clause: {v['verdict']}")
            for k, n in ctx.known_hits.items():
                print(f"KNOWN-FINDING: property={a.id} {k} reproduced")
            if not ctx.violations and not ctx.known_hits:
                print(f"replay {a.replay}: property holds on this case")
            return 1 if ctx.violations else 0
        if hasattr(mod, "run"):
            mod.run(ctx)
        else:
            default_pipeline(mod, ctx)
        return ctx.finish()
    except MachineryError as e:
        print(f"MACHINERY-ERROR {a.id}: {e}", file=sys.stderr)
        return 2
    except Exception:
        traceback.print_exc()
        print(f"MACHINERY-ERROR {a.id}: unexpected exception", file=sys.stderr)
        return 2


def default_pipeline(mod, ctx):
    if hasattr(mod, "model_check"):
        mod.model_check(ctx)
    inputs = list(mod.gen_cases(ctx))
    from lib.worker import pmap

    recs = pmap(mod.__name__, "observe", inputs, procs=getattr(mod, "PARALLEL", 4), mode=getattr(mod, "PMODE", "thread"))
    for r in recs[:2]:
        ctx.sample(r)
    ctx.nontrivial = len({json.dumps(c, sort_keys=True, default=str) for c in inputs})
    ctx.validate(*mod.TRACE, recs, {c["id"]: c for c in inputs}, classify=getattr(mod, "classify", None), chunk=getattr(mod, "CHUNK", 400))


if __name__ == "__main__":
    sys.exit(main())
