#!/usr/bin/env python3
"""Offline set-up: verifies the toolchain and SANY-parses every specification. Builds nothing else."""
import glob
import os
import shutil
import subprocess
import sys

VERIF = os.path.dirname(os.path.abspath(__file__))
sys.path.insert(0, VERIF)
from lib import tlc  # noqa: E402


def main():
    ok = True
    for tool in ("java",):
        if not shutil.which(tool):
            print("missing", tool)
            ok = False
    if not os.path.exists("/venv/bin/python"):
        print("missing /venv/bin/python")
        ok = False
    for d in ("evidence", "replays"):
        os.makedirs(os.path.join(VERIF, d), exist_ok=True)
    mods = sorted(os.path.basename(p)[:-4] for p in glob.glob(os.path.join(VERIF, "spec", "*.tla")))
    import concurrent.futures as cf

    with cf.ThreadPoolExecutor(8) as ex:
        for m, (good, out) in zip(mods, ex.map(tlc.sany, mods)):
            if not good:
                ok = False
                print(f"SANY FAILED {m}\n{out[-2000:]}")
    p = subprocess.run(["/venv/bin/python", "-c", "import sys; sys.path.insert(0,'/repo/src'); import fdtdx; print(fdtdx.__file__)"], capture_output=True, text=True)
    if p.returncode != 0 or "/repo/src" not in p.stdout:
        print("cannot import fdtdx from /repo/src:", p.stdout, p.stderr[-2000:])
        ok = False
    print(f"setup: {len(mods)} spec modules parsed; ok={ok}")
    return 0 if ok else 1


if __name__ == "__main__":
    sys.exit(main())
