#!/usr/bin/env python3
"""Offline set-up: verifies the toolchain and SANY-parses every specification. Builds nothing else."""
import glob
import os
import shutil
import subprocess
import sys

VERIF = os.path.dirname(os.path.abspath(__file__))
sys.path.insert(0, VERIF)
from lib import tlc  # noqa: E402


def _needed_modules(all_mods):
    """spec modules reachable from the checks registered in MANIFEST.json"""
    import json
    import re

    try:
        man = json.load(open(os.path.join(VERIF, "MANIFEST.json")))
        ids = [c["property_id"] for c in man["checks"]]
    except Exception:
        return set(all_mods)
    need, todo = set(), []
    for pid in ids:
        fp = os.path.join(VERIF, "checks", pid + ".py")
        if os.path.exists(fp):
            txt = open(fp).read()
            for tok in set(re.findall(r"[A-Za-z_][A-Za-z0-9_]*", txt)):
                if tok in all_mods:
                    todo.append(tok)
    while todo:
        m = todo.pop()
        if m in need:
            continue
        need.add(m)
        txt = open(os.path.join(VERIF, "spec", m + ".tla")).read()
        for line in re.findall(r"(?:EXTENDS|INSTANCE)\s+([^\n]*)", txt):
            for tok in re.findall(r"[A-Za-z_][A-Za-z0-9_]*", line):
                if tok in all_mods:
                    todo.append(tok)
    return need


def main():
    ok = True
    for tool in ("java",):
        if not shutil.which(tool):
            print("missing", tool)
            ok = False
    if not os.path.exists("/venv/bin/python"):
        print("missing /venv/bin/python")
        ok = False
    for d in ("evidence", "replays"):
        os.makedirs(os.path.join(VERIF, d), exist_ok=True)
    mods = sorted(os.path.basename(p)[:-4] for p in glob.glob(os.path.join(VERIF, "spec", "*.tla")))
    needed = _needed_modules(set(mods))
    import concurrent.futures as cf

    with cf.ThreadPoolExecutor(8) as ex:
        for m, (good, out) in zip(mods, ex.map(tlc.sany, mods)):
            if not good:
                if m in needed:
                    ok = False
                    print(f"SANY FAILED {m}\n{out[-2000:]}")
                else:
                    print(f"note: spec module {m} (work in progress, not used by a registered check) does not parse")
    p = subprocess.run(["/venv/bin/python", "-c", "import sys; sys.path.insert(0,'/repo/src'); import fdtdx; print(fdtdx.__file__)"], capture_output=True, text=True)
    if p.returncode != 0 or "/repo/src" not in p.stdout:
        print("cannot import fdtdx from /repo/src:", p.stdout, p.stderr[-2000:])
        ok = False
    print(f"setup: {len(mods)} spec modules parsed; ok={ok}")
    return 0 if ok else 1


if __name__ == "__main__":
    sys.exit(main())
